#!/usr/bin/env python3
"""T7: the closed-form bodies of the shipped input-function classes  ->  coq/gen/InputFunctionsGen.v
   (reified expressions of type InputFnDefs.ex) and work/t7_table.json (the same expressions for the Python-side
   validation of this translator against the compiled classes and for the failing-point search).

   Sources: include/InputFunctions/DomainGeometry/{circular,shafranov,czarny}Geometry.inl,
            src/InputFunctions/{ExactSolution,BoundaryConditions,DensityProfileCoefficients,SourceTerms}/*.cpp
   Variables: 0 = r, 1 = theta, 2 = Rmax, 3/4 = (elongation_kappa, shift_delta) or (inverse_aspect_ratio_epsilon, ellipticity_e).
   sin_theta / cos_theta are sin(theta) / cos(theta); factor_xi is replaced by its defining expression (initializeGeometry);
   M_PI is pi; decimal literals are exact rationals; pow(x, k) needs an integer or half-integer literal k.
   Culham classes are skipped (tabulated mapping; C19 asks nothing closed-form of them)."""
import json
import os
import re
import sys
from fractions import Fraction

sys.path.insert(0, os.path.dirname(os.path.abspath(__file__)))
from cexpr import strip_comments, TranslateError, parse_expr, match_braces

VARS = {'r': 0, 'theta': 1, 'Rmax': 2, 'elongation_kappa': 3, 'shift_delta': 4,
        'inverse_aspect_ratio_epsilon': 3, 'ellipticity_e': 4}
FUN1 = {'sin': 'sin', 'cos': 'cos', 'exp': 'exp', 'tanh': 'tanh', 'sqrt': 'sqrt', 'atan': 'atan',
        'std::sin': 'sin', 'std::cos': 'cos', 'std::exp': 'exp', 'std::tanh': 'tanh', 'std::sqrt': 'sqrt', 'std::atan': 'atan'}
MAX_COQ_NODES = 6000      # larger source terms are translated for the numeric search only


def const_value(e):
    """numeric value of a literal-only expression (exponents of pow), else None"""
    k = e[0]
    if k == 'cst':
        return Fraction(e[1], e[2])
    if k == 'neg':
        v = const_value(e[1])
        return None if v is None else -v
    if k in ('add', 'sub', 'mul', 'div'):
        a, b = const_value(e[1]), const_value(e[2])
        if a is None or b is None:
            return None
        if k == 'div' and b == 0:
            return None
        return {'add': a + b, 'sub': a - b, 'mul': a * b, 'div': (a / b) if b != 0 else None}[k]
    return None


def convert(ast, env):
    k = ast[0]
    if k == 'num':
        txt = ast[1].rstrip('fFlLuU')
        f = Fraction(txt)
        return ('cst', f.numerator, f.denominator)
    if k == 'id':
        n = ast[1]
        if n in env:
            return env[n]
        if n == 'sin_theta':
            return ('sin', ('var', 1))
        if n == 'cos_theta':
            return ('cos', ('var', 1))
        if n == 'M_PI':
            return ('pi',)
        if n in VARS:
            return ('var', VARS[n])
        raise TranslateError('unknown identifier %s' % n)
    if k == 'un' and ast[1] == '-':
        return ('neg', convert(ast[2], env))
    if k == 'bin' and ast[1] in '+-*/':
        return ({'+': 'add', '-': 'sub', '*': 'mul', '/': 'div'}[ast[1]], convert(ast[2], env), convert(ast[3], env))
    if k == 'cast':
        return convert(ast[2], env)
    if k == 'call' and ast[1][0] == 'id':
        fn = ast[1][1]
        if fn in FUN1 and len(ast[2]) == 1:
            return (FUN1[fn], convert(ast[2][0], env))
        if fn in ('pow', 'std::pow') and len(ast[2]) == 2:
            base = convert(ast[2][0], env)
            ex = const_value(convert(ast[2][1], env))
            if ex is None:
                raise TranslateError('pow with a non-literal exponent')
            neg = ex < 0
            ex = abs(ex)
            if ex.denominator == 1:
                body = ('pow', base, int(ex))
            elif ex.denominator == 2:
                kk = (ex.numerator - 1) // 2
                body = ('sqrt', base) if kk == 0 else ('mul', ('pow', base, kk), ('sqrt', base))
            else:
                raise TranslateError('pow exponent %s' % ex)
            return ('div', ('cst', 1, 1), body) if neg else body
    raise TranslateError('unsupported expression node %r' % (ast[:2],))


def function_expr(src, cls, fn):
    """the value returned by  double cls::fn(...) const { [double t = e;]* return e; }"""
    m = re.search(r'double\s+%s::%s\s*\(' % (re.escape(cls), re.escape(fn)), src)
    if not m:
        raise TranslateError('%s::%s not found' % (cls, fn))
    i = src.index('{', m.end())
    body = match_braces(src, i)
    body = re.sub(r'\(\s*double\s*\)', '', body)           # C-style casts of literals
    env = dict(GLOBAL_ENV.get(cls, {}))
    stmts = [s.strip() for s in body.split(';') if s.strip()]
    for s in stmts:
        mm = re.fullmatch(r'(?:const\s+)?double\s+(\w+)\s*=\s*(.*)', s, re.S)
        if mm:
            env[mm.group(1)] = convert(parse_expr(mm.group(2)), env)
            continue
        mm = re.fullmatch(r'return\s+(.*)', s, re.S)
        if mm:
            return convert(parse_expr(mm.group(1)), env)
        raise TranslateError('%s::%s: unsupported statement %r' % (cls, fn, s[:60]))
    raise TranslateError('%s::%s: no return' % (cls, fn))


GLOBAL_ENV = {}


def class_of(src):
    m = re.search(r'double\s+(\w+)::\w+\s*\(', src)
    if not m:
        raise TranslateError('no member function definition found')
    return m.group(1)


def xi_env(src, cls):
    """factor_xi = <expr>; in initializeGeometry"""
    m = re.search(r'factor_xi\s*=\s*([^;]*);', src)
    if m:
        GLOBAL_ENV[cls] = {'factor_xi': convert(parse_expr(m.group(1)), {})}


def size(e):
    return 1 + sum(size(x) for x in e[1:] if isinstance(x, tuple))


def to_coq(e):
    k = e[0]
    if k == 'var':
        return '(EVar %d)' % e[1]
    if k == 'cst':
        n = e[1]
        return '(ECst %s %d)' % (('(%d)' % n) if n < 0 else str(n), e[2])
    if k == 'pi':
        return 'EPi'
    if k == 'pow':
        return '(EPow %s %d)' % (to_coq(e[1]), e[2])
    names = {'add': 'EAdd', 'sub': 'ESub', 'mul': 'EMul', 'div': 'EDiv', 'neg': 'ENeg', 'sin': 'ESin', 'cos': 'ECos',
             'exp': 'EExp', 'tanh': 'ETanh', 'sqrt': 'ESqrt', 'atan': 'EAtan'}
    return '(%s %s)' % (names[k], ' '.join(to_coq(x) for x in e[1:]))


def translate(repo):
    table = {'geometry': {}, 'exact': {}, 'boundary': {}, 'coef': {}, 'rhs': {}, 'skipped': {}}
    out = ['(* GENERATED by translate/t7_input_functions.py -- do not edit. *)',
           'From Coq Require Import ZArith.', 'From GMGP Require Import InputFnDefs.', 'Local Open Scope Z_scope.', '']
    inc = os.path.join(repo, 'include/InputFunctions/DomainGeometry')
    for geo in ('circular', 'shafranov', 'czarny'):
        src = strip_comments(open(os.path.join(inc, geo + 'Geometry.inl')).read())
        cls = class_of(src)
        cpp = os.path.join(repo, 'src/InputFunctions/DomainGeometry', geo + 'Geometry.cpp')
        if os.path.exists(cpp):
            xi_env(strip_comments(open(cpp).read()), cls)
        fns = {}
        for fn in ('Fx', 'Fy', 'dFx_dr', 'dFy_dr', 'dFx_dt', 'dFy_dt'):
            fns[fn] = function_expr(src, cls, fn)
            out.append('Definition gen_%s_%s : ex := %s.' % (cls, fn, to_coq(fns[fn])))
        table['geometry'][cls] = fns
    base = os.path.join(repo, 'src/InputFunctions')
    for kind, sub, fnames in (('exact', 'ExactSolution', ['exact_solution']), ('boundary', 'BoundaryConditions', ['u_D', 'u_D_Interior']),
                              ('coef', 'DensityProfileCoefficients', ['alpha', 'beta']), ('rhs', 'SourceTerms', ['rhs_f'])):
        for f in sorted(os.listdir(os.path.join(base, sub))):
            if not f.endswith('.cpp'):
                continue
            src = strip_comments(open(os.path.join(base, sub, f)).read())
            try:
                cls = class_of(src)
                if 'Culham' in cls:
                    table['skipped'][cls] = 'Culham: tabulated mapping'
                    continue
                xi_env(src, cls)
                fns = {fn: function_expr(src, cls, fn) for fn in fnames}
            except TranslateError as e:
                if kind != 'rhs':
                    raise
                table['skipped'][f[:-4]] = str(e)
                continue
            table[kind][cls] = fns
            for fn, e in fns.items():
                if size(e) <= MAX_COQ_NODES:
                    out.append('Definition gen_%s_%s : ex := %s.' % (cls, fn, to_coq(e)))
                else:
                    out.append('(* gen_%s_%s: %d nodes, not emitted (numeric search only) *)' % (cls, fn, size(e)))
    if len(table['exact']) < 10 or len(table['boundary']) < 10 or len(table['coef']) != 7 or len(table['rhs']) < 50:
        raise TranslateError('unexpected number of classes: %s' % {k: len(v) for k, v in table.items()})
    return '\n'.join(out) + '\n', table


def main():
    repo = sys.argv[1] if len(sys.argv) > 1 else '/repo'
    verif = os.path.dirname(os.path.dirname(os.path.abspath(__file__)))
    sys.setrecursionlimit(100000)
    try:
        text, table = translate(repo)
    except TranslateError as e:
        print('TRANSLATE-ERROR t7_input_functions: %s' % e)
        return 1
    with open(os.path.join(verif, 'coq/gen/InputFunctionsGen.v'), 'w') as f:
        f.write(text)
    os.makedirs(os.path.join(verif, 'work'), exist_ok=True)
    with open(os.path.join(verif, 'work/t7_table.json'), 'w') as f:
        json.dump(table, f)
    # class list for harness/h_inputfn.cpp (written only when it changes, to keep the harness build incremental)
    rows = []
    def ctor(cls):
        return 'R' if 'Circular' in cls else 'R, p1, p2'
    for kind in ('geometry', 'exact', 'boundary', 'rhs'):
        for cls in sorted(table[kind]):
            for fn in sorted(table[kind][cls]):
                rows.append('{"%s", "%s", "%s", [](double r, double t, double R, double p1, double p2) { %s o(%s); '
                            'return o.%s(r, t, std::sin(t), std::cos(t)); }},' % (kind, cls, fn, cls, ctor(cls), fn))
    for cls in sorted(table['coef']):
        for fn in ('alpha', 'beta'):
            rows.append('{"coef", "%s", "%s", [](double r, double t, double R, double p1, double p2) { %s o(R, 0.66 * R); '
                        'return o.%s(r); }},' % (cls, fn, cls, fn))
    inc = '// GENERATED by translate/t7_input_functions.py -- do not edit.\n' + '\n'.join(rows) + '\n'
    incp = os.path.join(verif, 'harness/gen/inputfn_classes.inc')
    os.makedirs(os.path.dirname(incp), exist_ok=True)
    if not os.path.exists(incp) or open(incp).read() != inc:
        with open(incp, 'w') as f:
            f.write(inc)
    print('t7_input_functions: %s' % {k: len(v) for k, v in table.items()})
    return 0


if __name__ == '__main__':
    sys.exit(main())
