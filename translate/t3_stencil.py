#!/usr/bin/env python3
"""T3: the per-node stencil macros of the residual kernels  ->  coq/gen/StencilGen.v

   Sources (macro bodies, re-read on every run):
     src/Residual/ResidualTake/applyResidualTake.cpp   NODE_APPLY_RESIDUAL_TAKE   (gather: result[center] = rhs[center] - (...))
     src/Residual/ResidualGive/applyAGive.cpp          NODE_APPLY_A_GIVE          (scatter: result[neighbour] -= (...))
     src/GMGPolar/build_rhs_f.cpp                      the four loops of discretize_rhs_f (rhs_f[index] *= weight)

   What is generated: for each macro one Gallina function
        gen_<name> ... (i j : Z) : list (((Z * Z) * wkind) * S)
   - the list of writes the macro performs for node (i_r, i_theta) = (i, j), in program order, each with its target node
   (the arguments of grid.index, angular argument wrapped as PolarGrid::index does), its kind (assignment, +=, -=, *=)
   and the value expression, over an abstract scalar S (Scalar.Sc).  Branch conditions become boolean tests on Z, local
   `double` / `const int` declarations become `let`.

   Grammar accepted (anything else raises TranslateError: the check then reports the tie as broken, it never guesses):
     block := stmt*
     stmt  := 'if' '(' cond ')' '{' block '}' ('else' 'if' '(' cond ')' '{' block '}')* ('else' '{' block '}')?
            | ('const')? ('double'|'int') ident '=' expr ';'
            | lvalue ('='|'+='|'-='|'*=') expr ';'            lvalue = array '[' node ']'
     expr  := C arithmetic over: literals 0.25 0.5 1.0 2.0 0.0 and integers, locals, macro parameters,
              grid.nr() grid.ntheta() grid.radius(e) grid.radialSpacing(e) grid.angularSpacing(e)
              grid.wrapThetaIndex(e) grid.index(e, e) array[node] coeff_beta[e] fabs(e)
"""
import os
import re
import sys
from fractions import Fraction

sys.path.insert(0, os.path.dirname(os.path.abspath(__file__)))
from cexpr import strip_comments, TranslateError, parse_expr, match_braces, find_function_body

REPO = sys.argv[1] if len(sys.argv) > 1 else '/repo'
OUT = os.path.join(os.path.dirname(os.path.abspath(__file__)), '..', 'coq', 'gen', 'StencilGen.v')

LITS = {Fraction(1, 4): 'squarter', Fraction(1, 2): 'shalf', Fraction(1): 's1', Fraction(2): 's2', Fraction(0): 's0',
        Fraction(3): 's3', Fraction(4): 's4'}


def macro_body(src, name):
    """text of '#define name(params) body' with the line continuations removed; returns (params, body)"""
    m = re.search(r'#define\s+' + re.escape(name) + r'\s*\(', src)
    if not m:
        raise TranslateError('macro %s not found' % name)
    i = m.end() - 1
    params = match_braces(src, i, '(', ')')
    j = i + len(params) + 2
    lines = []
    rest = src[j:]
    for line in rest.split('\n'):
        s = line.rstrip()
        if s.endswith('\\'):
            lines.append(s[:-1])
        else:
            lines.append(s)
            break
    body = '\n'.join(lines)
    params = [p.strip() for p in params.replace('\\', ' ').split(',')]
    return params, strip_comments(body)


# ---------------------------------------------------------------- statements
def skip_ws(s, i):
    while i < len(s) and s[i].isspace():
        i += 1
    return i


def parse_block(s):
    """list of statements:  ('if', [(cond_text|None, block)...]) | ('decl', type, name, expr_text) | ('write', lhs_text, op, expr_text)"""
    out = []
    i = 0
    while True:
        i = skip_ws(s, i)
        if i >= len(s):
            return out
        m = re.match(r'do\b', s[i:])
        if m:
            i = skip_ws(s, i + 2)
            if s[i] != '{':
                raise TranslateError('do without block')
            inner = match_braces(s, i)
            i = i + len(inner) + 2
            m2 = re.match(r'\s*while\s*\(\s*0\s*\)\s*;?', s[i:])
            if not m2:
                raise TranslateError('do-block is not do { } while (0)')
            i += m2.end()
            out.extend(parse_block(inner))
            continue
        m = re.match(r'if\b', s[i:])
        if m:
            arms = []
            while True:
                i = skip_ws(s, i + 2)
                if s[i] != '(':
                    raise TranslateError('if without condition')
                cond = match_braces(s, i, '(', ')')
                i = skip_ws(s, i + len(cond) + 2)
                if s[i] != '{':
                    raise TranslateError('if body must be a braced block')
                blk = match_braces(s, i)
                i = i + len(blk) + 2
                arms.append((cond, parse_block(blk)))
                k = skip_ws(s, i)
                if re.match(r'else\b', s[k:]):
                    k = skip_ws(s, k + 4)
                    if re.match(r'if\b', s[k:]):
                        i = k
                        continue
                    if s[k] != '{':
                        raise TranslateError('else body must be a braced block')
                    blk = match_braces(s, k)
                    i = k + len(blk) + 2
                    arms.append((None, parse_block(blk)))
                break
            out.append(('if', arms))
            continue
        if s[i] == '{':
            blk = match_braces(s, i)
            i = i + len(blk) + 2
            out.append(('scope', parse_block(blk)))
            continue
        j = s.find(';', i)
        if j < 0:
            raise TranslateError('statement without ; : %r' % s[i:i + 40])
        st = ' '.join(s[i:j].split())
        i = j + 1
        if not st:
            continue
        m = re.match(r'(?:const\s+)?(double|int)\s+([A-Za-z_]\w*)\s*=\s*(.*)$', st)
        if m:
            out.append(('decl', m.group(1), m.group(2), m.group(3)))
            continue
        m = re.match(r'(double|int)\s+([A-Za-z_]\w*(?:\s*,\s*[A-Za-z_]\w*)*)$', st)
        if m:
            out.append(('declnoinit', m.group(1), [n.strip() for n in m.group(2).split(',')]))
            continue
        if re.match(r'assert\s*\(', st):
            continue
        m = re.match(r'const\s+Stencil\s*&\s*(\w+)\s*=\s*getStencil\s*\((.*)\)$', st)
        if m:
            out.append(('stencil', m.group(1), m.group(2)))
            continue
        m = re.match(r'const\s+Stencil\s*&\s*(\w+)\s*=\s*(\w+)$', st)
        if m:
            out.append(('stencilalias', m.group(1), m.group(2)))
            continue
        m = re.match(r'([A-Z][A-Z_0-9]+)\s*\((.*)\)$', st)
        if m:
            out.append(('macrocall', m.group(1), [a.strip() for a in m.group(2).split(',')]))
            continue
        m = re.match(r'(.+?)\s*(\+=|-=|\*=|(?<![=!<>])=(?!=))\s*(.*)$', st)
        if m:
            out.append(('write', m.group(1), m.group(2), m.group(3)))
            continue
        raise TranslateError('statement outside the grammar: %r' % st)


# ---------------------------------------------------------------- expressions
class Ctx:
    def __init__(self, arrays2, arrays1, own2, own1, int_names, real_names, bools):
        self.arrays2 = arrays2      # name -> Coq function Z -> Z -> S, indexed by a node
        self.arrays1 = arrays1      # name -> Coq function Z -> S, indexed by an int
        self.own2 = own2            # scalar macro parameter = value of a per-node array at (i, j)
        self.own1 = own1            # scalar macro parameter = value of a per-circle array at i
        self.ints = dict(int_names)
        self.reals = dict(real_names)
        self.bools = dict(bools)
        self.nodes = {}
        self.mut = {}        # mutable locals declared without initialiser: name -> 'int' | 'double'
        self.stencils = {}   # name -> Coq term of the stencil (list Z)
        self.positions = {}  # StencilPosition enumerator -> index
        self.get_stencil = None

    def fork(self):
        c = Ctx(self.arrays2, self.arrays1, self.own2, self.own1, self.ints, self.reals, self.bools)
        c.nodes = dict(self.nodes); c.mut = dict(self.mut); c.stencils = dict(self.stencils)
        c.positions = self.positions; c.get_stencil = self.get_stencil
        return c


def lit(txt):
    t = txt.rstrip('fFlLuU')
    f = Fraction(t)
    return f


def conv(e, cx, want):
    """want in {'int','real','bool','node'} -> Coq text"""
    k = e[0]
    if want == 'node':
        if k == 'id' and e[1] in cx.nodes:
            return cx.nodes[e[1]]
        if k == 'call' and e[1][0] == 'mem' and e[1][2] == 'index' and grid_obj(e[1][1]) and len(e[2]) == 2:
            a = conv(e[2][0], cx, 'int')
            b = conv(e[2][1], cx, 'int')
            return (a, '(wrapT %s %s)' % (nth_of(e[1][1]), b))
        raise TranslateError('not a node expression: %r' % (e,))
    if want == 'bool':
        if k == 'bin' and e[1] in ('&&', '||'):
            return '(%s %s %s)' % (conv(e[2], cx, 'bool'), e[1], conv(e[3], cx, 'bool'))
        if k == 'un' and e[1] == '!':
            return '(negb %s)' % conv(e[2], cx, 'bool')
        if k == 'bin' and e[1] in ('<', '<=', '>', '>=', '==', '!='):
            a, b = conv(e[2], cx, 'int'), conv(e[3], cx, 'int')
            return {'<': '(%s <? %s)%%Z' % (a, b), '<=': '(%s <=? %s)%%Z' % (a, b), '>': '(%s <? %s)%%Z' % (b, a),
                    '>=': '(%s <=? %s)%%Z' % (b, a), '==': '(%s =? %s)%%Z' % (a, b), '!=': '(negb (%s =? %s)%%Z)' % (a, b)}[e[1]]
        if k == 'id' and e[1] in cx.bools:
            return cx.bools[e[1]]
        if k == 'bin' and e[1] == '&' and e[3] == ('num', '1'):
            return '(Z.odd %s)' % conv(e[2], cx, 'int')
        raise TranslateError('not a boolean expression: %r' % (e,))
    if want == 'int':
        if k == 'num':
            f = lit(e[1])
            if f.denominator != 1 or '.' in e[1]:
                raise TranslateError('non-integer literal in an index expression: %s' % e[1])
            return '%d' % f.numerator
        if k == 'id' and e[1] in cx.ints:
            return cx.ints[e[1]]
        if k == 'un' and e[1] == '-':
            return '(- %s)%%Z' % conv(e[2], cx, 'int')
        if k == 'bin' and e[1] in ('+', '-', '*'):
            return '(%s %s %s)%%Z' % (conv(e[2], cx, 'int'), e[1], conv(e[3], cx, 'int'))
        if k == 'bin' and e[1] == '/':
            return '(Z.quot %s %s)' % (conv(e[2], cx, 'int'), conv(e[3], cx, 'int'))
        if k == 'cond':
            return '(if %s then %s else %s)' % (conv(e[1], cx, 'bool'), conv(e[2], cx, 'int'), conv(e[3], cx, 'int'))
        if k == 'idx' and e[1][0] == 'id' and e[1][1] in cx.stencils and e[2][0] == 'id' and e[2][1].startswith('StencilPosition::'):
            pos = e[2][1].split('::')[1]
            if pos not in cx.positions:
                raise TranslateError('unknown stencil position %s' % pos)
            return '(stencil_slot %s %d)' % (cx.stencils[e[1][1]], cx.positions[pos])
        if k == 'call' and e[1][0] == 'mem' and grid_obj(e[1][1]):
            fn = e[1][2]
            coarse = e[1][1][1] == 'coarseGrid'
            if fn == 'nr' and not e[2]:
                return 'nrc' if coarse else 'nr'
            if fn == 'ntheta' and not e[2]:
                return 'nthc' if coarse else 'nth'
            if fn == 'numberSmootherCircles' and not e[2]:
                return 'nscc' if coarse else 'nsc'
            if fn == 'wrapThetaIndex' and len(e[2]) == 1:
                return '(wrapT %s %s)' % (nth_of(e[1][1]), conv(e[2][0], cx, 'int'))
        raise TranslateError('not an integer expression: %r' % (e,))
    # real
    if k == 'num':
        f = lit(e[1])
        if f in LITS:
            return LITS[f]
        raise TranslateError('literal %s has no exact scalar constant' % e[1])
    if k == 'id':
        n = e[1]
        if n in cx.reals:
            return cx.reals[n]
        if n in cx.own2:
            return '(%s i j)' % cx.own2[n]
        if n in cx.own1:
            return '(%s i)' % cx.own1[n]
        raise TranslateError('unknown real identifier %s' % n)
    if k == 'cond':
        return '(if %s then %s else %s)' % (conv(e[1], cx, 'bool'), conv(e[2], cx, 'real'), conv(e[3], cx, 'real'))
    if k == 'call' and e[1][0] == 'mem' and e[1][1] == ('id', 'domain_geometry_') and e[1][2] in ('dFx_dr', 'dFy_dr', 'dFx_dt', 'dFy_dt'):
        # only the node's own evaluation point is accepted: (r, theta, sin_theta, cos_theta) bound to grid.radius(i_r), grid.theta(i_theta), caches[i_theta]
        want = [('r', '(rad i)'), ('theta', '(thetaf j)'), ('sin_theta', '(sin_cache j)'), ('cos_theta', '(cos_cache j)')]
        if len(e[2]) != 4:
            raise TranslateError('geometry call with %d arguments' % len(e[2]))
        for a, (nm, val) in zip(e[2], want):
            if a != ('id', nm) or cx.reals.get(nm + '@def') != val:
                raise TranslateError('geometry call %s is not evaluated at the node itself: %r' % (e[1][2], a))
        return '(%s i j)' % e[1][2]
    if k == 'un' and e[1] == '-':
        return '(- %s)' % conv(e[2], cx, 'real')
    if k == 'bin' and e[1] in '+-*/':
        return '(%s %s %s)' % (conv(e[2], cx, 'real'), e[1], conv(e[3], cx, 'real'))
    if k == 'idx' and e[1][0] == 'id':
        n = e[1][1]
        if n in cx.arrays2:
            a, b = conv(e[2], cx, 'node')
            return '(%s %s %s)' % (cx.arrays2[n], a, b)
        if n in cx.arrays1:
            return '(%s %s)' % (cx.arrays1[n], conv(e[2], cx, 'int'))
        raise TranslateError('unknown array %s' % n)
    if k == 'call' and e[1][0] == 'id' and e[1][1] in ('fabs', 'std::fabs', 'std::abs') and len(e[2]) == 1:
        return '(sabs %s)' % conv(e[2][0], cx, 'real')
    if k == 'call' and e[1][0] == 'mem' and grid_obj(e[1][1]) and len(e[2]) == 1:
        fn = e[1][2]
        a = conv(e[2][0], cx, 'int')
        if e[1][1][1] == 'coarseGrid':
            if fn == 'radialSpacing':
                return '(hcf %s)' % a
            if fn == 'angularSpacing':
                return '(kcf (wrapT nthc %s))' % a
            raise TranslateError('coordinate query on the coarse grid')
        if fn == 'radialSpacing':
            return '(h %s)' % a
        if fn == 'angularSpacing':
            return '(k (wrapT nth %s))' % a
        if fn == 'radius':
            return '(rad %s)' % a
        if fn == 'theta':
            return '(thetaf %s)' % a
    raise TranslateError('not a real expression: %r' % (e,))


def grid_obj(e):
    return e[0] == 'id' and e[1] in ('grid', 'grid_', 'fineGrid', 'coarseGrid')


def nth_of(e):
    """the ntheta variable of the grid object an index / wrap call is made on"""
    return 'nthc' if e[1] == 'coarseGrid' else 'nth'


def assigned_muts(stmts, cx):
    out = set()
    for st in stmts:
        if st[0] == 'write' and re.fullmatch(r'[A-Za-z_]\w*', st[1]) and st[1] in cx.mut:
            out.add(st[1])
        elif st[0] == 'if':
            for _, blk in st[1]:
                out |= assigned_muts(blk, cx)
        elif st[0] == 'scope':
            out |= assigned_muts(st[1], cx)
    return out


def is_local_update(st, cx):
    return st[0] == 'write' and re.fullmatch(r'[A-Za-z_]\w*', st[1]) is not None and cx.reals.get(st[1]) == st[1] and st[1] not in cx.mut


def updated_locals(st, cx):
    out = set()
    if st[0] == 'if':
        for _, blk in st[1]:
            for s2 in blk:
                if is_local_update(s2, cx):
                    out.add(s2[1])
                elif s2[0] == 'if':
                    out |= updated_locals(s2, cx)
    return out


def has_writes(st):
    if st[0] == 'if':
        return any(has_writes(s2) for _, blk in st[1] for s2 in blk)
    if st[0] == 'write':
        return '[' in st[1]
    return st[0] == 'macrocall'


def emit_value(stmts, cx, name):
    """the value of the local `name` after the statements (which may declare locals and update `name`), as a Coq expression"""
    if not stmts:
        return name
    st, rest = stmts[0], stmts[1:]
    if st[0] == 'decl':
        _, ty, nm, ex = st
        ast = parse_expr(ex)
        if ty == 'double':
            val = conv(ast, cx, 'real')
            cx.reals[nm] = nm
            return 'let %s : S := %s in %s' % (nm, val, emit_value(rest, cx, name))
        try:
            node = conv(ast, cx, 'node')
        except TranslateError:
            node = None
        if node is not None:
            cx.nodes[nm] = node
            return emit_value(rest, cx, name)
        val = conv(ast, cx, 'int')
        cx.ints[nm] = nm
        return 'let %s : Z := %s in %s' % (nm, val, emit_value(rest, cx, name))
    if is_local_update(st, cx):
        val = conv(parse_expr(st[3]), cx, 'real')
        v = st[1]
        newv = {'=': val, '+=': '(%s + %s)' % (v, val), '-=': '(%s - %s)' % (v, val), '*=': '(%s * %s)' % (v, val)}[st[2]]
        return 'let %s : S := %s in %s' % (v, newv, emit_value(rest, cx, name))
    raise TranslateError('statement outside the grammar inside a value-only branch: %r' % (st[:2],))


def emit_block(stmts, cx, ind):
    """Coq term of type list write for the statement list"""
    if not stmts:
        return '[]'
    st, rest = stmts[0], stmts[1:]
    pad = ' ' * ind
    if st[0] == 'declnoinit':
        for n in st[2]:
            cx.mut[n] = st[1]
            cx.ints.pop(n, None); cx.reals.pop(n, None); cx.nodes.pop(n, None)
        return emit_block(rest, cx, ind)
    if st[0] == 'stencil':
        if cx.get_stencil is None:
            raise TranslateError('getStencil used in a kernel without a stencil function')
        cx.stencils[st[1]] = '(%s %s)' % (cx.get_stencil, conv(parse_expr(st[2]), cx, 'int'))
        return emit_block(rest, cx, ind)
    if st[0] == 'write' and re.fullmatch(r'[A-Za-z_]\w*', st[1]) and st[1] in cx.mut:
        if st[2] != '=':
            raise TranslateError('compound assignment to the local %s' % st[1])
        ast = parse_expr(st[3])
        name = st[1]
        cx.ints.pop(name, None); cx.reals.pop(name, None); cx.nodes.pop(name, None)
        if cx.mut[name] == 'double':
            cx.reals[name] = conv(ast, cx, 'real')
        else:
            try:
                cx.nodes[name] = conv(ast, cx, 'node')
            except TranslateError:
                cx.ints[name] = conv(ast, cx, 'int')
        return emit_block(rest, cx, ind)
    if st[0] == 'stencilalias':
        if st[2] not in cx.stencils:
            raise TranslateError('alias of an unknown stencil %s' % st[2])
        cx.stencils[st[1]] = cx.stencils[st[2]]
        return emit_block(rest, cx, ind)
    if st[0] == 'write' and re.fullmatch(r'[A-Za-z_]\w*', st[1]) and cx.reals.get(st[1]) == st[1] and st[1] not in cx.mut:
        # update of a local double that was declared with an initialiser: a shadowing let
        name = st[1]
        val = conv(parse_expr(st[3]), cx, 'real')
        newv = {'=': val, '+=': '(%s + %s)' % (name, val), '-=': '(%s - %s)' % (name, val), '*=': '(%s * %s)' % (name, val)}[st[2]]
        return 'let %s : S := %s in\n%s%s' % (name, newv, pad, emit_block(rest, cx, ind))
    if st[0] == 'macrocall':
        if st[1] != 'UPDATE_MATRIX_ELEMENT' or len(st[2]) != 5:
            raise TranslateError('unknown macro call %s' % st[1])
        _, off, row, col, val = st[2]
        r = conv(parse_expr(row), cx, 'node'); c = conv(parse_expr(col), cx, 'node')
        o = conv(parse_expr(off), cx, 'int'); v = conv(parse_expr(val), cx, 'real')
        return '(((%s, %s), %s, (%s, %s)), %s)\n%s:: %s' % (r[0], r[1], o, c[0], c[1], v, pad, emit_block(rest, cx, ind))
    if st[0] == 'decl':
        _, ty, name, ex = st
        ast = parse_expr(ex)
        saved = (dict(cx.ints), dict(cx.reals), dict(cx.nodes))
        if ty == 'double':
            val = conv(ast, cx, 'real')
            cx.reals[name] = name
            cx.reals[name + '@def'] = val
            cx.ints.pop(name, None)
            body = emit_block(rest, cx, ind)
            cx.ints, cx.reals, cx.nodes = saved
            return 'let %s : S := %s in\n%s%s' % (name, val, pad, body)
        # int: either an index value or a node (grid.index)
        try:
            node = conv(ast, cx, 'node')
        except TranslateError:
            node = None
        if node is not None:
            cx.nodes[name] = ('%s_r' % name, '%s_t' % name)
            body = emit_block(rest, cx, ind)
            cx.ints, cx.reals, cx.nodes = saved
            return 'let %s_r : Z := %s in let %s_t : Z := %s in\n%s%s' % (name, node[0], name, node[1], pad, body)
        val = conv(ast, cx, 'int')
        cx.ints[name] = name
        cx.reals.pop(name, None)
        body = emit_block(rest, cx, ind)
        cx.ints, cx.reals, cx.nodes = saved
        return 'let %s : Z := %s in\n%s%s' % (name, val, pad, body)
    if st[0] == 'write':
        _, lhs, op, ex = st
        l = parse_expr(lhs)
        if l[0] != 'idx' or l[1][0] != 'id':
            raise TranslateError('write target is not array[node]: %s' % lhs)
        tgt = conv(l[2], cx, 'node')
        kind = {'=': 'WAssign', '+=': 'WAdd', '-=': 'WSub', '*=': 'WMul'}[op]
        val = conv(parse_expr(ex), cx, 'real')
        return '((%s, %s), W_%s_%s, %s)\n%s:: %s' % (tgt[0], tgt[1], l[1][1], kind, val, pad, emit_block(rest, cx, ind))
    if st[0] == 'scope':
        return '(%s)\n%s++ %s' % (emit_block(st[1], cx.fork(), ind + 2), pad, emit_block(rest, cx, ind))
    if st[0] == 'if' and updated_locals(st, cx):
        ups = sorted(updated_locals(st, cx))
        if has_writes(st):
            raise TranslateError('an if statement both writes to memory and updates a local')
        out = ''
        for v in ups:
            e = ''
            closed = False
            for cond, blk in st[1]:
                if cond is None:
                    e += '(%s)' % emit_value(blk, cx.fork(), v)
                    closed = True
                    break
                e += 'if %s then (%s) else ' % (conv(parse_expr(cond), cx, 'bool'), emit_value(blk, cx.fork(), v))
            if not closed:
                e += v
            out += 'let %s : S := (%s) in\n%s' % (v, e, pad)
        return out + emit_block(rest, cx, ind)
    if st[0] == 'if':
        txt = ''
        closing = ''
        for cond, blk in st[1]:
            if cond is None:
                txt += '(%s)' % emit_block(blk, cx.fork(), ind + 2)
                break
            txt += 'if %s\n%s then (%s)\n%s else ' % (conv(parse_expr(cond), cx, 'bool'), pad, emit_block(blk, cx.fork(), ind + 2), pad)
        else:
            txt += '[]'
        for blk in st[1]:
            for n in assigned_muts(blk[1], cx):      # a local assigned inside a branch is undefined afterwards
                cx.ints.pop(n, None); cx.reals.pop(n, None); cx.nodes.pop(n, None)
        return '(%s)\n%s++ %s' % (txt, pad, emit_block(rest, cx, ind))
    raise TranslateError('unknown statement %r' % (st,))


# ---------------------------------------------------------------- kernels
def gen_take(src):
    params, body = macro_body(src, 'NODE_APPLY_RESIDUAL_TAKE')
    want = ['i_r', 'i_theta', 'grid', 'DirBC_Interior', 'result', 'rhs', 'x', 'arr', 'att', 'art', 'detDF', 'coeff_beta']
    if params != want:
        raise TranslateError('NODE_APPLY_RESIDUAL_TAKE parameters changed: %r' % (params,))
    cx = Ctx(arrays2={'rhs': 'rhs', 'x': 'x', 'arr': 'arr', 'att': 'att', 'art': 'art', 'detDF': 'det', 'result': 'result'},
             arrays1={'coeff_beta': 'beta'}, own2={}, own1={},
             int_names={'i_r': 'i', 'i_theta': 'j'}, real_names={}, bools={'DirBC_Interior': 'dirbc'})
    return emit_block(parse_block(body), cx, 4)


def gen_give(src):
    params, body = macro_body(src, 'NODE_APPLY_A_GIVE')
    want = ['i_r', 'i_theta', 'r', 'theta', 'sin_theta', 'cos_theta', 'grid', 'DirBC_Interior', 'result', 'x', 'arr', 'att',
            'art', 'detDF', 'coeff_beta']
    if params != want:
        raise TranslateError('NODE_APPLY_A_GIVE parameters changed: %r' % (params,))
    cx = Ctx(arrays2={'x': 'x', 'result': 'result'}, arrays1={},
             own2={'arr': 'arr', 'att': 'att', 'art': 'art', 'detDF': 'det'}, own1={'coeff_beta': 'beta'},
             int_names={'i_r': 'i', 'i_theta': 'j'}, real_names={}, bools={'DirBC_Interior': 'dirbc'})
    return emit_block(parse_block(body), cx, 4)


def stencil_tables(hdr, positions_hdr):
    pm = re.search(r'enum\s+class\s+StencilPosition\s*\{([^}]*)\}', positions_hdr)
    if not pm:
        raise TranslateError('enum StencilPosition not found')
    pos = [p.strip() for p in pm.group(1).split(',') if p.strip()]
    if any('=' in p for p in pos):
        raise TranslateError('StencilPosition with explicit values')
    tabs = {}
    for m in re.finditer(r'const\s+Stencil\s+(\w+)\s*=\s*\{([^}]*)\}', hdr):
        vals = [int(v) for v in m.group(2).replace('\n', ' ').split(',') if v.strip()]
        if len(vals) != len(pos):
            raise TranslateError('stencil %s has %d entries' % (m.group(1), len(vals)))
        tabs[m.group(1)] = vals
    return {p: i for i, p in enumerate(pos)}, tabs


def return_chain(body, cx, want, names=None):
    """if (c) { return X; } else if ... ; a trailing throw = no value"""
    stmts = []
    i = 0
    txt = ''
    decls = ''
    # leading declarations  const int name = expr;
    while True:
        i = skip_ws(body, i)
        m = re.match(r'(?:const\s+)?int\s+(\w+)\s*=\s*([^;]*);', body[i:])
        if m:
            decls += 'let %s : Z := %s in ' % (m.group(1), conv(parse_expr(m.group(2)), cx, 'int'))
            cx.ints[m.group(1)] = m.group(1)
            i += m.end()
            continue
        m = re.match(r'(?:assert\s*\([^;]*\)\s*;|int\s+\w+\s*,\s*\w+\s*;|grid_\.multiIndex\s*\([^;]*\)\s*;)', body[i:])
        if m:
            i += m.end()
            continue
        break
    n = 0
    while True:
        i = skip_ws(body, i)
        m = re.match(r'(?:else\s+)?if\s*\(', body[i:])
        if not m:
            break
        c = match_braces(body, i + m.end() - 1, '(', ')')
        j = skip_ws(body, i + m.end() + len(c) + 1)
        blk = match_braces(body, j)
        r = re.fullmatch(r'\s*return\s+(\w+)\s*;\s*', blk)
        if not r:
            raise TranslateError('branch is not a single return: %r' % blk[:50])
        val = r.group(1)
        if names is not None:
            if val not in names:
                raise TranslateError('unknown stencil %s' % val)
            val = 'gen_' + val
        else:
            val = conv(('id', val), cx, 'int')
        txt += 'if %s then %s else ' % (conv(parse_expr(c), cx, 'bool'), val)
        n += 1
        i = j + len(blk) + 2
    rest = body[i:].strip()
    if not re.fullmatch(r'throw\s+std::out_of_range\s*\([^;]*\)\s*;', rest) or n == 0:
        raise TranslateError('return chain outside the grammar: %r' % rest[:60])
    return decls + txt + ('[]' if names is not None else '(-1)%Z')


def gen_assembly(repo, kind):
    K = 'Take' if kind == 'take' else 'Give'
    d = os.path.join(repo, 'src/DirectSolver/DirectSolver%sCustomLU' % K)
    hdr = strip_comments(open(os.path.join(repo, 'include/DirectSolver/DirectSolver%sCustomLU/directSolver%sCustomLU.h' % (K, K))).read())
    pos, tabs = stencil_tables(hdr, strip_comments(open(os.path.join(repo, 'include/Stencil/stencil.h')).read()))
    ms = strip_comments(open(os.path.join(d, 'matrixStencil.cpp')).read())
    if kind == 'take':
        mk = lambda: Ctx(arrays2={'arr': 'arr', 'att': 'att', 'art': 'art', 'detDF': 'det'}, arrays1={'coeff_beta': 'beta'}, own2={}, own1={},
                         int_names={'i_r': 'i', 'i_theta': 'j'}, real_names={}, bools={'DirBC_Interior': 'dirbc', 'DirBC_Interior_': 'dirbc'})
        want = ['i_r', 'i_theta', 'grid', 'DirBC_Interior', 'solver_matrix', 'arr', 'att', 'art', 'detDF', 'coeff_beta']
        upd = '='
    else:
        mk = lambda: Ctx(arrays2={}, arrays1={}, own2={'arr': 'arr', 'att': 'att', 'art': 'art', 'detDF': 'det'}, own1={'coeff_beta': 'beta'},
                         int_names={'i_r': 'i', 'i_theta': 'j'}, real_names={}, bools={'DirBC_Interior': 'dirbc', 'DirBC_Interior_': 'dirbc'})
        want = ['i_r', 'i_theta', 'r', 'theta', 'sin_theta', 'cos_theta', 'grid', 'DirBC_Interior', 'solver_matrix', 'arr', 'att', 'art',
                'detDF', 'coeff_beta']
        upd = '+='
    tabs = {('give_' if kind == 'give' else '') + k_: v for k_, v in tabs.items()}
    pre = 'give_' if kind == 'give' else ''
    fix = (lambda t: re.sub(r'\bgen_(stencil_\w+)', r'gen_give_\1', t)) if kind == 'give' else (lambda t: t)
    raw_tabs = {k_[len(pre):]: v for k_, v in tabs.items()}
    get_st = fix(return_chain(find_function_body(ms, r'const\s+Stencil&\s+DirectSolver%sCustomLU::getStencil\s*\(' % K), mk(), 'stencil', raw_tabs))
    get_sz = return_chain(find_function_body(ms, r'int\s+DirectSolver%sCustomLU::getStencilSize\s*\(' % K), mk(), 'int')
    src = open(os.path.join(d, 'buildSolverMatrix.cpp')).read()
    params, body = macro_body(src, 'NODE_BUILD_SOLVER_MATRIX_%s' % K.upper())
    if params != want:
        raise TranslateError('NODE_BUILD_SOLVER_MATRIX_%s parameters changed: %r' % (K.upper(), params))
    up, ub = macro_body(src, 'UPDATE_MATRIX_ELEMENT')
    if up != ['matrix', 'offset', 'row', 'col', 'val'] or ' '.join(ub.split()) != \
            'do { matrix.row_nz_index(row, offset) = col; matrix.row_nz_entry(row, offset) %s val; } while (0)' % upd:
        raise TranslateError('UPDATE_MATRIX_ELEMENT (%s) is not  row_nz_index(row, offset) = col; row_nz_entry(row, offset) %s val' % (kind, upd))
    cx = mk()
    cx.positions = pos
    cx.get_stencil = 'gen_%s_get_stencil' % kind
    term = emit_block(parse_block(body), cx, 4)
    return pos, tabs, get_st, get_sz, term


def gen_asc_ortho_take(src, name):
    params, body = macro_body(src, name)
    want = ['i_r', 'i_theta', 'grid', 'DirBC_Interior', 'smoother_color', 'x', 'rhs', 'temp', 'arr', 'att', 'art', 'detDF', 'coeff_beta']
    if params != want:
        raise TranslateError('%s parameters changed: %r' % (name, params))
    cx = Ctx(arrays2={'rhs': 'rhs', 'x': 'x', 'arr': 'arr', 'att': 'att', 'art': 'art', 'detDF': 'det', 'temp': 'temp'},
             arrays1={'coeff_beta': 'beta'}, own2={}, own1={},
             int_names={'i_r': 'i', 'i_theta': 'j'}, real_names={}, bools={'DirBC_Interior': 'dirbc'})
    return emit_block(parse_block(body), cx, 4)


def gen_prolongation(src, macro='FINE_NODE_PROLONGATION', fn_name='applyProlongation'):
    params, body = macro_body(src, macro)
    if params not in ([], ['']):
        raise TranslateError('%s has parameters: %r' % (macro, params))
    # the macro uses i_r_coarse / i_theta_coarse of the enclosing loops: they must be i_r / 2 and i_theta / 2 at every use
    clean = strip_comments(src)
    fn = find_function_body(clean, r'void\s+Interpolation::' + fn_name + r'\s*\(')
    uses = len(re.findall(macro + r'\s*\(\s*\)', fn))
    d1 = len(re.findall(r'int\s+i_r_coarse\s*=\s*i_r\s*/\s*2\s*;', fn))
    d2 = len(re.findall(r'int\s+i_theta_coarse\s*=\s*i_theta\s*/\s*2\s*;', fn))
    if uses == 0 or d1 != uses or d2 != uses or len(re.findall(r'\bi_r_coarse\s*=', fn)) != d1 or len(re.findall(r'\bi_theta_coarse\s*=', fn)) != d2:
        raise TranslateError('%s: i_r_coarse / i_theta_coarse are not i_r / 2 and i_theta / 2 at every use of the macro' % fn_name)
    cx = Ctx(arrays2={'x': 'x', 'result': 'result'}, arrays1={}, own2={}, own1={},
             int_names={'i_r': 'i', 'i_theta': 'j', 'i_r_coarse': '(Z.quot i 2)', 'i_theta_coarse': '(Z.quot j 2)'}, real_names={}, bools={})
    return emit_block(parse_block(body), cx, 4)


def gen_restriction(src, fn_name='applyRestriction'):
    clean = strip_comments(src)
    body = find_function_body(clean, r'void\s+Interpolation::' + fn_name + r'\s*\(')
    m = re.search(r'const\s+int\s+coarseNumberSmootherCircles\s*=\s*coarseGrid\.numberSmootherCircles\(\)\s*;', body)
    if not m and re.search(r'\bcoarseNumberSmootherCircles\b', body):
        raise TranslateError('%s: coarseNumberSmootherCircles is not coarseGrid.numberSmootherCircles()' % fn_name)
    loops = innermost_loops(body)
    if len(loops) != 2:
        raise TranslateError('applyRestriction: expected 2 doubly nested loops, found %d' % len(loops))
    res = []
    for oh, ih, pre, blk in loops:
        cx = Ctx(arrays2={'x': 'x', 'result': 'result'}, arrays1={}, own2={}, own1={},
                 int_names={'i_r_coarse': 'ic', 'i_theta_coarse': 'jc', 'coarseNumberSmootherCircles': 'nscc'}, real_names={}, bools={})
        rng = {}
        for hdr in (oh, ih):
            mm = re.match(r'int (i_r_coarse|i_theta_coarse) = (.+?); (\w+) < (.+?); (\w+)\+\+$', hdr)
            if not mm or mm.group(1) != mm.group(3) or mm.group(1) != mm.group(5):
                raise TranslateError('applyRestriction: loop header outside the grammar: %s' % hdr)
            rng[mm.group(1)] = (conv(parse_expr(mm.group(2)), cx, 'int'), conv(parse_expr(mm.group(4)), cx, 'int'))
        dom = '((%s <=? ic) && (ic <? %s) && (%s <=? jc) && (jc <? %s))%%Z' % (rng['i_r_coarse'][0], rng['i_r_coarse'][1], rng['i_theta_coarse'][0], rng['i_theta_coarse'][1])
        res.append((dom, emit_block(parse_block(pre) + parse_block(blk), cx, 4), oh, ih))
    return res


def give_call_sites(src):
    """the arguments NODE_APPLY_A_GIVE is invoked with must be the node's own cached / computed values"""
    calls = re.findall(r'NODE_APPLY_A_GIVE\s*\(([^;]*?)\)\s*;', strip_comments(src), flags=re.S)
    calls = [' '.join(c.split()) for c in calls if 'i_r, i_theta, r, theta, sin_theta' not in c or 'result' in c]
    return calls


def innermost_loops(body):
    """[(outer header, inner header, inner body)] for the doubly nested for loops of a function body"""
    out = []
    for m in re.finditer(r'\bfor\s*\(', body):
        hdr = match_braces(body, m.end() - 1, '(', ')')
        j = skip_ws(body, m.end() + len(hdr) + 1)
        if body[j] != '{':
            raise TranslateError('for without a braced body')
        blk = match_braces(body, j)
        inner = list(re.finditer(r'\bfor\s*\(', blk))
        if len(inner) != 1:
            continue
        im = inner[0]
        ihdr = match_braces(blk, im.end() - 1, '(', ')')
        ij = skip_ws(blk, im.end() + len(ihdr) + 1)
        iblk = match_braces(blk, ij)
        if re.search(r'\bfor\s*\(', iblk):
            continue
        pre = blk[:im.start()]
        post = blk[ij + len(iblk) + 2:]
        if post.strip():
            raise TranslateError('statements after the inner loop')
        out.append((' '.join(hdr.split()), ' '.join(ihdr.split()), pre, iblk))
    return out


LOOP_RE = re.compile(r'int (i_r|i_theta) = (.+?); (i_r|i_theta) < (.+?); (i_r|i_theta)\+\+$')


def loop_range(hdr, cx):
    m = LOOP_RE.match(hdr)
    if not m or len({m.group(1), m.group(3), m.group(5)}) != 1:
        raise TranslateError('loop header outside the grammar: %s' % hdr)
    return m.group(1), conv(parse_expr(m.group(2)), cx, 'int'), conv(parse_expr(m.group(4)), cx, 'int')


def gen_rhs(src):
    body = find_function_body(strip_comments(src), r'void\s+GMGPolar::discretize_rhs_f\s*\(')
    loops = innermost_loops(body)
    if len(loops) != 4:
        raise TranslateError('discretize_rhs_f: expected 4 doubly nested loops, found %d' % len(loops))
    res = []
    for n, (oh, ih, pre, blk) in enumerate(loops):
        cx = Ctx(arrays2={'rhs_f': 'rhs_f', 'detDF_cache': 'det'}, arrays1={'sin_theta_cache': 'sin_cache', 'cos_theta_cache': 'cos_cache'},
                 own2={}, own1={}, int_names={'i_r': 'i', 'i_theta': 'j'}, real_names={},
                 bools={'DirBC_Interior_': 'dirbc'})
        cx.ints['grid.numberSmootherCircles()'] = 'nsc'
        ov, olo, ohi = loop_range(oh, cx)
        iv, ilo, ihi = loop_range(ih, cx)
        if ov == iv:
            raise TranslateError('nested loops over the same variable')
        rng = {ov: (olo, ohi), iv: (ilo, ihi)}
        dom = '((%s <=? i) && (i <? %s) && (%s <=? j) && (j <? %s))%%Z' % (rng['i_r'][0], rng['i_r'][1], rng['i_theta'][0], rng['i_theta'][1])
        stmts = parse_block(pre) + parse_block(blk)
        res.append((dom, emit_block(stmts, cx, 4), oh, ih))
    return res


HEADER = '''(* GENERATED by translate/t3_stencil.py from
     %s
   DO NOT EDIT: rewritten from /repo's working tree on every run.
   Each function lists, in program order, the writes one expansion of the macro performs for node (i_r, i_theta) = (i, j):
   target node (arguments of grid.index; PolarGrid::index wraps its angular argument, C17), kind, value. *)
From Coq Require Import List ZArith Bool.
From GMGP Require Import Scalar.
Import ListNotations.
Local Open Scope Z_scope.

Inductive wkind := W_result_WAssign | W_result_WSub | W_result_WAdd | W_rhs_f_WMul | W_rhs_f_WAssign | W_temp_WAssign | W_temp_WSub | W_temp_WAdd.

(* PolarGrid::wrapThetaIndex, in the form C17 proves the generated index functions equal to *)
Definition wrapT (n x : Z) : Z := x mod n.

Section StencilGen.
  Context {S : Sc}.
  Local Open Scope sc_scope.
  Variable nr nth nsc nthc nrc nscc : Z.
  Variable h k rad thetaf sin_cache cos_cache hcf kcf : Z -> S.
  Variable dFx_dr dFy_dr dFx_dt dFy_dt : Z -> Z -> S.
  Variable arr att art det : Z -> Z -> S.
  Variable beta : Z -> S.
  Variable dirbc : bool.
  Definition gwrite := (((Z * Z) * wkind) * S)%%type.
'''


def write_if_changed(path, text):
    """keep the time stamp when nothing changed, so that make does not rebuild the proofs"""
    try:
        if open(path).read() == text:
            return
    except OSError:
        pass
    with open(path, 'w') as f:
        f.write(text)


def main():
    files = {
        'take': os.path.join(REPO, 'src/Residual/ResidualTake/applyResidualTake.cpp'),
        'give': os.path.join(REPO, 'src/Residual/ResidualGive/applyAGive.cpp'),
        'rhs': os.path.join(REPO, 'src/GMGPolar/build_rhs_f.cpp'),
    }
    take_src = open(files['take']).read()
    give_src = open(files['give']).read()
    try:
        take = gen_take(take_src)
        give = gen_give(give_src)
        rhs = gen_rhs(open(files['rhs']).read())
        prol = gen_prolongation(open(os.path.join(REPO, 'src/Interpolation/prolongation.cpp')).read())
        exprol = gen_prolongation(open(os.path.join(REPO, 'src/Interpolation/extrapolated_prolongation.cpp')).read(),
                                  'FINE_NODE_EXTRAPOLATED_PROLONGATION', 'applyExtrapolatedProlongation')
        restr = gen_restriction(open(os.path.join(REPO, 'src/Interpolation/restriction.cpp')).read())
        inj = gen_restriction(open(os.path.join(REPO, 'src/Interpolation/injection.cpp')).read(), 'applyInjection')
        exrestr = gen_restriction(open(os.path.join(REPO, 'src/Interpolation/extrapolated_restriction.cpp')).read(), 'applyExtrapolatedRestriction')
        fmg = gen_prolongation(open(os.path.join(REPO, 'src/Interpolation/fmg_interpolation.cpp')).read(),
                               'FINE_NODE_FMG_INTERPOLATION', 'applyFMGInterpolation')
        sm_src = open(os.path.join(REPO, 'src/Smoother/SmootherTake/smootherSolver.cpp')).read()
        asc_c = gen_asc_ortho_take(sm_src, 'NODE_APPLY_ASC_ORTHO_CIRCLE_TAKE')
        asc_r = gen_asc_ortho_take(sm_src, 'NODE_APPLY_ASC_ORTHO_RADIAL_TAKE')
        apos, atabs, aget, asz, aterm = gen_assembly(REPO, 'take')
        gpos, gtabs, gget, gsz, gterm = gen_assembly(REPO, 'give')
    except TranslateError as ex:
        # leave a file that does not compile: the tie is then reported as broken, with the reason
        write_if_changed(OUT, '(* T3 could not translate the current source: %s *)\nT3_translation_failed.\n' % str(ex).replace('*)', '* )'))
        print('T3 FAILED:', ex)
        return 1
    out = HEADER % '\n     '.join(os.path.relpath(p, REPO) for p in files.values())
    out += '\n  (* NODE_APPLY_RESIDUAL_TAKE *)\n  Definition gen_resid_take (rhs x : Z -> Z -> S) (i j : Z) : list gwrite :=\n    %s.\n' % take
    out += '\n  (* NODE_APPLY_A_GIVE *)\n  Definition gen_apply_a_give (x : Z -> Z -> S) (i j : Z) : list gwrite :=\n    %s.\n' % give
    names = ['cached_circle', 'cached_radial', 'uncached_circle', 'uncached_radial']
    for nm, (dom, term, oh, ih) in zip(names, rhs):
        out += '\n  (* discretize_rhs_f, loop nest  for (%s) for (%s) *)\n' % (oh, ih)
        out += '  Definition gen_rhs_%s_visits (i j : Z) : bool := %s.\n' % (nm, dom)
        out += '  Definition gen_rhs_%s (rhs_f : Z -> Z -> S) (i j : Z) : list gwrite :=\n    %s.\n' % (nm, term)
    out += '\n  (* ---- FINE_NODE_PROLONGATION (src/Interpolation/prolongation.cpp), x indexed by coarse nodes, nthc = coarse ntheta ---- *)\n'
    out += '  Definition gen_prolongation (x : Z -> Z -> S) (i j : Z) : list gwrite :=\n    %s.\n' % prol
    out += '  (* FINE_NODE_EXTRAPOLATED_PROLONGATION (src/Interpolation/extrapolated_prolongation.cpp) *)\n'
    out += '  Definition gen_extrapolated_prolongation (x : Z -> Z -> S) (i j : Z) : list gwrite :=\n    %s.\n' % exprol
    out += '  (* FINE_NODE_FMG_INTERPOLATION (src/Interpolation/fmg_interpolation.cpp); hcf / kcf = the coarse grid\'s spacing arrays *)\n'
    out += '  Definition gen_fmg_interpolation (x : Z -> Z -> S) (i j : Z) : list gwrite :=\n    %s.\n' % fmg
    for nm, (dom, term, oh, ih) in zip(['circle', 'radial'], restr):
        out += '  (* applyRestriction (src/Interpolation/restriction.cpp), loop nest  for (%s) for (%s); x indexed by fine nodes *)\n' % (oh, ih)
        out += '  Definition gen_restriction_%s_visits (ic jc : Z) : bool := %s.\n' % (nm, dom)
        out += '  Definition gen_restriction_%s (x : Z -> Z -> S) (ic jc : Z) : list gwrite :=\n    %s.\n' % (nm, term)
    for nm, (dom, term, oh, ih) in zip(['circle', 'radial'], inj):
        out += '  (* applyInjection (src/Interpolation/injection.cpp), loop nest  for (%s) for (%s) *)\n' % (oh, ih)
        out += '  Definition gen_injection_%s (x : Z -> Z -> S) (ic jc : Z) : list gwrite :=\n    %s.\n' % (nm, term)
    for nm, (dom, term, oh, ih) in zip(['circle', 'radial'], exrestr):
        out += '  (* applyExtrapolatedRestriction (src/Interpolation/extrapolated_restriction.cpp), loop nest  for (%s) for (%s) *)\n' % (oh, ih)
        out += '  Definition gen_extrapolated_restriction_%s (x : Z -> Z -> S) (ic jc : Z) : list gwrite :=\n    %s.\n' % (nm, term)
    out += '\n  (* ---- take smoother: NODE_APPLY_ASC_ORTHO_CIRCLE_TAKE / _RADIAL_TAKE (src/Smoother/SmootherTake/smootherSolver.cpp) ---- *)\n'
    out += '  Definition gen_asc_ortho_circle_take (rhs x : Z -> Z -> S) (i j : Z) : list gwrite :=\n    %s.\n' % asc_c
    out += '  Definition gen_asc_ortho_radial_take (rhs x : Z -> Z -> S) (i j : Z) : list gwrite :=\n    %s.\n' % asc_r
    out += '\n  (* ---- direct solver (take): stencil slot tables, getStencil, getStencilSize, NODE_BUILD_SOLVER_MATRIX_TAKE ---- *)\n'
    out += '  (* StencilPosition: %s *)\n' % ', '.join('%s = %d' % (p, i) for p, i in sorted(apos.items(), key=lambda x: x[1]))
    for nm, vals in atabs.items():
        out += '  Definition gen_%s : list Z := [%s]%%Z.\n' % (nm, '; '.join(str(v) for v in vals))
    out += '  Definition stencil_slot (st : list Z) (p : nat) : Z := List.nth p st (-1)%Z.\n'
    out += '  Definition gen_take_get_stencil (i : Z) : list Z :=\n    %s.\n' % aget
    out += '  Definition gen_take_get_stencil_size (i : Z) : Z :=\n    %s.\n' % asz
    out += '  Definition mwrite := ((((Z * Z) * Z) * (Z * Z)) * S)%type.    (* row node, slot, column node, value *)\n'
    out += '  Definition gen_build_solver_matrix_take (i j : Z) : list mwrite :=\n    %s.\n' % aterm
    out += '\n  (* ---- direct solver (give): UPDATE_MATRIX_ELEMENT accumulates (+=) ---- *)\n'
    for nm, vals in gtabs.items():
        out += '  Definition gen_%s : list Z := [%s]%%Z.\n' % (nm, '; '.join(str(v) for v in vals))
    out += '  Definition gen_give_get_stencil (i : Z) : list Z :=\n    %s.\n' % gget
    out += '  Definition gen_give_get_stencil_size (i : Z) : Z :=\n    %s.\n' % gsz
    out += '  Definition gen_build_solver_matrix_give (i j : Z) : list mwrite :=\n    %s.\n' % gterm
    out += 'End StencilGen.\n'
    write_if_changed(OUT, out)
    print('T3 ok:', OUT)
    return 0


if __name__ == '__main__':
    sys.exit(main())
