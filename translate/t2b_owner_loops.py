#!/usr/bin/env python3
"""T2b: every OpenMP region of the "owner computes" kind  ->  coq/gen/ParOwnerGen.v

Sources (every `#pragma omp parallel` construct of these files is translated; re-read on every run):
   src/Interpolation/*.cpp, src/Level/levelCache.cpp, src/GMGPolar/build_rhs_f.cpp, src/GMGPolar/solver.cpp,
   include/LinearAlgebra/vector_operations.h, include/LinearAlgebra/vector.h, include/LinearAlgebra/coo_matrix.h

A region is the list of its work-shared loops (`#pragma omp parallel for` = one loop; `#pragma omp parallel { #pragma omp for
[nowait] ... }` = several).  For each loop the translator records (ParOwnerDefs.oloop):
   nowait, the outer range [lo, hi) and the inner loop's range (as functions of the grid sizes, when they are grid queries),
   every write to memory that is not declared inside the loop body:
       A[G.index(a, b)] / A[alias]  ->  (A, T2 slot(a) slot(b))      slot = VO (outer loop variable) | VN (inner) | VX (other)
       A[v]                         ->  (A, T1 slot(v))
       scalar = ... / scalar++      ->  (scalar, TScalar)            unless the scalar is in a reduction clause
   and the arrays that are written in the loop and also read at an index other than the written one (foreign reads).
Function-like macros defined in the same file are expanded textually first.  Callees are assumed to write only through the
arguments they are given (their names are listed in the generated file); anything outside this grammar raises TranslateError."""
import glob
import os
import re
import sys

sys.path.insert(0, os.path.dirname(os.path.abspath(__file__)))
from cexpr import strip_comments, TranslateError, parse_expr, match_braces

REPO = sys.argv[1] if len(sys.argv) > 1 else '/repo'
OUT = os.path.join(os.path.dirname(os.path.abspath(__file__)), '..', 'coq', 'gen', 'ParOwnerGen.v')

FILES = sorted(glob.glob(os.path.join(REPO, 'src/Interpolation/*.cpp'))) + [os.path.join(REPO, p) for p in (
    'src/Level/levelCache.cpp', 'src/GMGPolar/build_rhs_f.cpp', 'src/GMGPolar/solver.cpp',
    'include/LinearAlgebra/vector_operations.h', 'include/LinearAlgebra/vector.h', 'include/LinearAlgebra/coo_matrix.h')]

TYPES = r'(?:const\s+)?(?:unsigned\s+)?(?:double|int|bool|auto|std::size_t|size_t|MultiIndex|Point|T|std::array<[^;=]*?>|std::pair<[^;=]*?>)'
DECL_RE = re.compile(r'^\s*' + TYPES + r'\s*&?\s+([A-Za-z_]\w*(?:\s*,\s*[A-Za-z_]\w*)*)\s*(=[^=].*|\(.*|\{.*)?$', re.S)
FOR_RE = re.compile(r'for\s*\(\s*(?:const\s+)?(?:int|std::size_t|size_t)\s+(\w+)\s*=\s*([^;]*);\s*(\w+)\s*<\s*([^;]*);\s*(?:(\w+)\s*\+\+|\+\+\s*(\w+))\s*\)')


def expand_macros(src):
    """textual expansion of the function-like macros the file defines itself"""
    macros = {}
    out = []
    lines = src.split('\n')
    i = 0
    while i < len(lines):
        m = re.match(r'\s*#\s*define\s+(\w+)\s*\(([^)]*)\)(.*)$', lines[i])
        if m:
            body = [m.group(3)]
            out.append('')
            while body[-1].rstrip().endswith('\\'):
                body[-1] = body[-1].rstrip()[:-1]
                i += 1
                body.append(lines[i])
                out.append('')
            macros[m.group(1)] = ([p.strip() for p in m.group(2).split(',') if p.strip()], ' '.join(body))
        else:
            out.append(lines[i])
        i += 1
    text = '\n'.join(out)
    for _ in range(4):
        changed = False
        for name, (params, body) in macros.items():
            while True:
                m = re.search(r'\b' + name + r'\s*\(', text)
                if not m:
                    break
                args = match_braces(text, m.end() - 1, '(', ')')
                al = [a.strip() for a in split_args(args)] if args.strip() else []
                if len(al) != len(params):
                    raise TranslateError('macro %s called with %d arguments' % (name, len(al)))
                b = body
                for p, a in zip(params, al):
                    b = re.sub(r'\b' + re.escape(p) + r'\b', a, b)
                text = text[:m.start()] + b + text[m.end() + len(args) + 1:]
                changed = True
        if not changed:
            break
    return text


def split_args(s):
    out, depth, cur = [], 0, ''
    for ch in s:
        if ch in '([{<' and ch != '<':
            depth += 1
        elif ch in ')]}':
            depth -= 1
        if ch == ',' and depth == 0:
            out.append(cur)
            cur = ''
        else:
            cur += ch
    out.append(cur)
    return out


DEFS = {}


def size_expr(txt):
    """grid-size expressions -> Gallina over (d : dims); None when the expression is not a grid query"""
    t = ' '.join(txt.split())
    for _ in range(3):
        t = re.sub(r'\b([A-Za-z_]\w*)\b(?!\s*[\.(])', lambda m: '(' + DEFS[m.group(1)] + ')' if m.group(1) in DEFS else m.group(0), t)
    t = re.sub(r'\b\w+\.numberSmootherCircles\(\)', 'NSC', t)
    t = re.sub(r'\b\w+\.nr\(\)', 'NR', t)
    t = re.sub(r'\b\w+\.ntheta\(\)', 'NT', t)
    t = re.sub(r'\b\w+\.numberOfNodes\(\)', '(NR * NT)', t)
    if not re.fullmatch(r'[\sNSCRT\d+\-*()]*', t):
        return None
    return t.replace('NSC', 'd_nsc d').replace('NR', 'd_nr d').replace('NT', 'd_nt d')


def grids_in(txt):
    return set(re.findall(r'\b(\w+)\.(?:numberSmootherCircles|nr|ntheta|numberOfNodes)\(\)', txt))


def statements(body):
    """flat list of simple statements of a block (braces and for/if headers split off)"""
    out, cur, depth = [], '', 0
    for ch in body:
        if ch in '({[':
            depth += (ch != '{')
        if ch in ')}]':
            depth -= (ch != '}')
        if ch in '{}' or (ch == ';' and depth == 0):
            if cur.strip():
                out.append(cur.strip())
            cur = ''
        else:
            cur += ch
    if cur.strip():
        out.append(cur.strip())
    return out


def find_callees(txt):
    out = set()
    for m in re.finditer(r'([A-Za-z_][\w:\.\->]*)\s*\(', txt):
        pre = txt[:m.start()].rstrip()
        chained = pre.endswith('.') or pre.endswith('->') or pre.endswith('::')
        out.add(('.' if chained else '') + m.group(1))
    return out


def analyse_loop(header_m, body, clauses, private=()):
    ovar = header_m.group(1)
    if header_m.group(3) != ovar or (header_m.group(5) or header_m.group(6)) != ovar:
        raise TranslateError('loop header outside the grammar: %s' % header_m.group(0))
    reduction = set()
    for m in re.finditer(r'reduction\s*\(\s*[^:]+:\s*([^)]*)\)', clauses):
        reduction |= {v.strip() for v in m.group(1).split(',')}
    inner = [m for m in FOR_RE.finditer(body)]
    ivar, irange = None, None
    if len(inner) > 1:
        # nested deeper or two inner loops: only the first level below the work-shared loop is an "inner" loop
        raise TranslateError('more than one loop inside a work-shared loop (%s)' % ovar)
    if inner:
        im = inner[0]
        ivar = im.group(1)
        if im.group(3) != ivar or (im.group(5) or im.group(6)) != ivar:
            raise TranslateError('inner loop header outside the grammar')
        irange = (im.group(2), im.group(4))
    # statements: for-headers contribute "int v = lo" pieces, which the declaration pattern picks up
    flat = FOR_RE.sub(';', body)
    if re.search(r'\bfor\s*\(', flat):
        raise TranslateError('loop header outside the grammar inside a work-shared loop (%s)' % ovar)
    flat = re.sub(r'\b(?:if|else if|while)\s*\(', '; IFCOND (', flat)
    stm = statements(flat)
    local = {ovar} | set(private)
    if ivar:
        local.add(ivar)
    aliases = {}
    for s in stm:
        s1 = re.sub(r'^\s*(?:else\s+)?', '', s)
        m = DECL_RE.match(s1)
        if m:
            names = [n.strip() for n in m.group(1).split(',')]
            local |= set(names)
            init = m.group(2) or ''
            mi = re.match(r'=\s*\w+\.index\(\s*([^,()]+?)\s*,\s*([^,()]+?)\s*\)\s*$', init)
            if mi and len(names) == 1:
                aliases[names[0]] = (mi.group(1), mi.group(2))
    writes, callees = [], set()
    for s in stm:
        s1 = re.sub(r'^\s*(?:else\s+)?', '', s)
        if DECL_RE.match(s1) or s1.startswith('IFCOND') or s1.startswith('assert') or s1.startswith('return') \
                or s1.startswith('#') or s1 in ('else', 'do', 'while (0)', 'continue', 'break'):
            callees |= find_callees(s1)
            continue
        callees |= find_callees(s1)
        m = re.match(r'^(.*?[^=!<>+\-*/&|^])\s*(=|\+=|-=|\*=|/=)(?!=)\s*(.*)$', s1, re.S)
        if m:
            lhs = m.group(1).strip()
            ma = re.match(r'^([A-Za-z_]\w*)\s*\[(.*)\]$', lhs, re.S)
            if ma:
                writes.append((ma.group(1), ' '.join(ma.group(2).split())))
                continue
            if re.fullmatch(r'[A-Za-z_]\w*', lhs):
                if lhs in local or lhs in reduction:
                    continue
                writes.append((lhs, None))
                continue
            mf = re.match(r'^([A-Za-z_]\w*)((?:\.\w+|\[[^\]]*\])+)$', lhs)
            if mf and mf.group(1) in local:
                continue
            raise TranslateError('assignment target outside the grammar: %r' % lhs)
        mi = re.fullmatch(r'(?:\+\+|--)\s*([A-Za-z_]\w*)|([A-Za-z_]\w*)\s*(?:\+\+|--)\)?', s1)
        if mi:
            v = mi.group(1) or mi.group(2)
            if v not in local and v not in reduction:
                writes.append((v, None))
            continue
        if re.match(r'^[A-Za-z_][\w:\.\->]*\s*\(.*\)$', s1, re.S):
            continue   # a call statement: writes only through its arguments (locals); recorded in callees
        raise TranslateError('statement outside the grammar: %r' % s1[:80])

    # a bare call (no object, no namespace) of anything but a known pure function has unknown memory effects
    pure = {'IFCOND', 'assert', 'sin', 'cos', 'fabs', 'sqrt', 'pow', 'equals', 'compute_jacobian_elements', 'static_cast', 'T'}
    for c in callees:
        if not re.search(r'\.|->|::', c) and c not in pure and c not in local:
            raise TranslateError('call of %s inside a work-shared loop: its memory effects are not visible to this translator' % c)

    def slot(e):
        e = e.strip()
        return 'VO' if e == ovar else ('VN' if ivar and e == ivar else 'VX')

    wl = []
    targets = {}
    for a, idx in writes:
        if a in local:
            continue
        if idx is None:
            wl.append((a, 'TScalar'))
            continue
        mi = re.match(r'^\w+\.index\(\s*([^,()]+?)\s*,\s*([^,()]+?)\s*\)$', idx)
        if mi:
            t = 'T2 %s %s' % (slot(mi.group(1)), slot(mi.group(2)))
        elif idx in aliases:
            t = 'T2 %s %s' % (slot(aliases[idx][0]), slot(aliases[idx][1]))
        elif re.fullmatch(r'\w+', idx):
            t = 'T1 %s' % slot(idx)
        else:
            t = 'T1 VX'
        wl.append((a, t))
        targets.setdefault(a, set()).add(idx)
    foreign = set()
    for a, idxs in targets.items():
        for m in re.finditer(r'\b' + re.escape(a) + r'\s*\[', body):
            idx = ' '.join(match_braces(body, m.end() - 1, '[', ']').split())
            if idx not in idxs:
                foreign.add(a)
    rng_txt = ' '.join([header_m.group(2), header_m.group(4)] + (list(irange) if irange else []))
    for _ in range(3):
        rng_txt = re.sub(r'\b([A-Za-z_]\w*)\b(?!\s*[\.(])', lambda m: DEFS.get(m.group(1), m.group(0)), rng_txt)
    reads_nw = set()
    for m in re.finditer(r'\b([A-Za-z_]\w*)\s*\[', body):
        nm = m.group(1)
        if nm not in local and nm not in targets and not re.match(r'std|array', nm):
            reads_nw.add(nm)
    return {'reads_nw': sorted(reads_nw), 'ovar': ovar, 'orange': (size_expr(header_m.group(2)), size_expr(header_m.group(4))), 'ivar': ivar,
            'irange_c': (size_expr(irange[0]), size_expr(irange[1])) if irange else None, 'grids': grids_in(rng_txt),
            'irange': irange,
            'writes': sorted(set(wl)), 'foreign': sorted(foreign), 'callees': sorted(callees)}


def regions_of(path):
    src = expand_macros(strip_comments(open(path).read()))
    regs = []
    for m in re.finditer(r'#\s*pragma\s+omp\s+parallel\b([^\n]*)', src):
        clauses = m.group(1)
        line = src.count('\n', 0, m.start()) + 1
        DEFS.clear()
        for dm in re.finditer(r'const\s+int\s+(\w+)\s*=\s*([^;]*);', src[max(0, m.start() - 4000):m.start()]):
            DEFS[dm.group(1)] = ' '.join(dm.group(2).split())
        rest_pos = m.end()
        loops = []
        if re.match(r'\s*for\b', clauses):
            hm = FOR_RE.search(src, rest_pos)
            if not hm or src[rest_pos:hm.start()].strip():
                raise TranslateError('%s:%d: parallel for not followed by a loop of the grammar' % (path, line))
            j = src.index('{', hm.end())
            if src[hm.end():j].strip():
                raise TranslateError('%s:%d: loop without a braced body' % (path, line))
            body = match_braces(src, j)
            d = analyse_loop(hm, body, clauses)
            d['nowait'] = False
            loops.append(d)
        else:
            j = src.index('{', rest_pos)
            if src[rest_pos:j].strip():
                raise TranslateError('%s:%d: parallel construct without a block' % (path, line))
            block = match_braces(src, j)
            pos = 0
            private = set()
            while True:
                pm = re.search(r'#\s*pragma\s+omp\s+(\w+)\b([^\n]*)', block[pos:])
                between = block[pos:pos + pm.start()] if pm else block[pos:]
                # declarations inside the parallel block are private to each thread; nothing else may stand between the loops
                for st in statements(between):
                    dm = DECL_RE.match(st)
                    if not dm:
                        raise TranslateError('%s:%d: statement between the work-shared loops: %r' % (path, line, st[:60]))
                    private |= {n.strip() for n in dm.group(1).split(',')}
                if not pm:
                    break
                if pm.group(1) != 'for':
                    raise TranslateError('%s:%d: omp %s inside a parallel region' % (path, line, pm.group(1)))
                cl = pm.group(2)
                hm = FOR_RE.search(block, pos + pm.end())
                if not hm or block[pos + pm.end():hm.start()].strip():
                    raise TranslateError('%s:%d: omp for not followed by a loop of the grammar' % (path, line))
                k = block.index('{', hm.end())
                body = match_braces(block, k)
                d = analyse_loop(hm, body, cl, private)
                d['nowait'] = bool(re.search(r'\bnowait\b', cl))
                loops.append(d)
                pos = k + len(body) + 2
        regs.append((line, loops))
    return regs


def coq_str(s):
    return '"%s"' % s.replace('"', "'")


def emit(allregs):
    out = ['(* GENERATED by translate/t2b_owner_loops.py -- do not edit; rewritten from /repo on every run. *)',
           'From Coq Require Import List ZArith Bool String.', 'From GMGP Require Import ParDefs ParOwnerDefs.',
           'Import ListNotations.', 'Local Open Scope Z_scope.', 'Local Open Scope string_scope.', '']
    names = []
    callees = set()
    for path, regs in allregs:
        stem = re.sub(r'\W', '_', os.path.splitext(os.path.basename(path))[0])
        for k, (line, loops) in enumerate(regs):
            nm = 'oreg_%s_%d' % (stem, k)
            names.append((nm, os.path.relpath(path, REPO), line))
            ls = []
            for d in loops:
                callees |= set(d['callees'])
                olo, ohi = d['orange']
                sym = olo is None or ohi is None
                if d['irange']:
                    ilo, ihi = d['irange_c']
                    sym = sym or ilo is None or ihi is None
                else:
                    ilo, ihi = '0', '1'
                if len(d['grids']) > 1:
                    sym = True
                if sym:
                    olo = ohi = ilo = ihi = '0'
                ws = '; '.join('(%s, %s)' % (coq_str(a), t) for a, t in d['writes'])
                fr = '; '.join(coq_str(a) for a in d['foreign'])
                rn = '; '.join(coq_str(a) for a in d['reads_nw'])
                ls.append('    mkOloop %s %s (fun d => %s) (fun d => %s) (fun d => %s) (fun d => %s)\n      [%s] [%s] [%s]'
                          % ('true' if d['nowait'] else 'false', 'true' if sym else 'false', olo, ohi, ilo, ihi, ws, fr, rn))
            out.append('(* %s:%d *)\nDefinition %s : list oloop := [\n%s\n].\n' % (os.path.relpath(path, REPO), line, nm, ';\n'.join(ls)))
    out.append('Definition gen_owner_regions : list (string * list oloop) := [\n%s\n].\n'
               % ';\n'.join('  (%s, %s)' % (coq_str('%s:%d' % (p, l)), n) for n, p, l in names))
    out.append('(* callees inside the loop bodies (assumed to write only through the arguments they are given):\n   %s *)'
               % ' '.join(sorted(callees)))
    return '\n'.join(out) + '\n'


def write_if_changed(path, text):
    """keep the time stamp when nothing changed, so that make does not rebuild the proofs"""
    try:
        if open(path).read() == text:
            return
    except OSError:
        pass
    with open(path, 'w') as f:
        f.write(text)


def main():
    try:
        allregs = [(p, regions_of(p)) for p in FILES]
        text = emit(allregs)
    except (TranslateError, ValueError) as ex:
        write_if_changed(OUT, '(* T2b could not translate the current source: %s *)\nT2b_translation_failed.\n' % str(ex).replace('*)', '* )'))
        print('T2b FAILED:', ex)
        return 1
    write_if_changed(OUT, text)
    n = sum(len(r) for _, r in allregs)
    print('T2b ok: %s (%d regions, %d loops)' % (OUT, n, sum(len(l) for _, r in allregs for _, l in r)))
    return 0


if __name__ == '__main__':
    sys.exit(main())
