"""Tiny C/C++ expression parser shared by the translators.

Grammar (exactly what the translated fragments of GMGPolar use; anything else raises
TranslateError so that the check reports "not shown" instead of guessing):

  expr    := cond
  cond    := lor ('?' expr ':' cond)?
  lor     := land ('||' land)*
  land    := bor ('&&' bor)*
  bor     := band ('|' band)*
  band    := eq ('&' eq)*
  eq      := rel (('=='|'!=') rel)*
  rel     := shift (('<'|'<='|'>'|'>=') shift)*
  shift   := add (('<<'|'>>') add)*
  add     := mul (('+'|'-') mul)*
  mul     := unary (('*'|'/'|'%') unary)*
  unary   := ('-'|'!'|'+') unary | postfix
  postfix := primary ( '(' args ')' | '[' expr ']' | '.' ident | '->' ident )*
  primary := number | ident ('::' ident)* | '(' expr ')' | static_cast<T>(expr)

AST: tuples ('num', text) ('id', name) ('call', fn_ast, [args]) ('idx', a, i)
     ('mem', a, name) ('un', op, a) ('bin', op, a, b) ('cond', c, a, b) ('cast', type, a)
"""
import re


class TranslateError(Exception):
    pass


TOKEN_RE = re.compile(r"""
    (?P<ws>\s+)
  | (?P<num>(?:\d+\.\d*(?:[eE][-+]?\d+)?|\.\d+(?:[eE][-+]?\d+)?|\d+[eE][-+]?\d+|\d+)[uUlLfF]*)
  | (?P<id>[A-Za-z_][A-Za-z_0-9]*)
  | (?P<op>::|->|<<|>>|<=|>=|==|!=|&&|\|\||[-+*/%&|<>?:()\[\],.!~^=])
""", re.X)


def tokenize(s):
    pos, out = 0, []
    while pos < len(s):
        m = TOKEN_RE.match(s, pos)
        if not m:
            raise TranslateError("cannot tokenize at: %r" % s[pos:pos + 30])
        pos = m.end()
        if m.lastgroup == 'ws':
            continue
        out.append((m.lastgroup, m.group(m.lastgroup)))
    return out


class Parser:
    def __init__(self, text):
        self.toks = tokenize(text)
        self.i = 0

    def peek(self, k=0):
        return self.toks[self.i + k] if self.i + k < len(self.toks) else ('eof', '')

    def next(self):
        t = self.peek()
        self.i += 1
        return t

    def accept(self, v):
        if self.peek()[1] == v and self.peek()[0] == 'op':
            self.i += 1
            return True
        return False

    def expect(self, v):
        if not self.accept(v):
            raise TranslateError("expected %r, got %r" % (v, self.peek()))

    def parse(self):
        e = self.expr()
        if self.peek()[0] != 'eof':
            raise TranslateError("trailing tokens: %r" % (self.toks[self.i:self.i + 5],))
        return e

    def expr(self):
        return self.cond()

    def cond(self):
        c = self.binlevel(0)
        if self.accept('?'):
            a = self.expr()
            self.expect(':')
            b = self.cond()
            return ('cond', c, a, b)
        return c

    LEVELS = [['||'], ['&&'], ['|'], ['&'], ['==', '!='], ['<', '<=', '>', '>='], ['<<', '>>'],
              ['+', '-'], ['*', '/', '%']]

    def binlevel(self, lvl):
        if lvl == len(self.LEVELS):
            return self.unary()
        a = self.binlevel(lvl + 1)
        while self.peek()[0] == 'op' and self.peek()[1] in self.LEVELS[lvl]:
            op = self.next()[1]
            b = self.binlevel(lvl + 1)
            a = ('bin', op, a, b)
        return a

    def unary(self):
        if self.peek()[0] == 'op' and self.peek()[1] in ('-', '!', '+'):
            op = self.next()[1]
            a = self.unary()
            if op == '+':
                return a
            return ('un', op, a)
        return self.postfix()

    def postfix(self):
        a = self.primary()
        while True:
            if self.accept('('):
                args = []
                if not self.accept(')'):
                    while True:
                        args.append(self.expr())
                        if self.accept(')'):
                            break
                        self.expect(',')
                a = ('call', a, args)
            elif self.accept('['):
                i = self.expr()
                self.expect(']')
                a = ('idx', a, i)
            elif self.accept('.') or self.accept('->'):
                t = self.next()
                if t[0] != 'id':
                    raise TranslateError("member name expected")
                a = ('mem', a, t[1])
            else:
                return a

    def primary(self):
        t = self.next()
        if t[0] == 'num':
            return ('num', t[1])
        if t[0] == 'id':
            name = t[1]
            if name in ('static_cast', 'const_cast', 'reinterpret_cast'):
                self.expect('<')
                ty = []
                depth = 1
                while True:
                    u = self.next()
                    if u[0] == 'eof':
                        raise TranslateError("unterminated cast")
                    if u[1] == '<':
                        depth += 1
                    if u[1] == '>':
                        depth -= 1
                        if depth == 0:
                            break
                    ty.append(u[1])
                self.expect('(')
                a = self.expr()
                self.expect(')')
                return ('cast', ' '.join(ty), a)
            while self.accept('::'):
                u = self.next()
                if u[0] != 'id':
                    raise TranslateError("identifier expected after ::")
                name = name + '::' + u[1]
            return ('id', name)
        if t == ('op', '('):
            a = self.expr()
            self.expect(')')
            return a
        raise TranslateError("unexpected token %r" % (t,))


def parse_expr(text):
    return Parser(text).parse()


def strip_comments(src):
    src = re.sub(r'/\*.*?\*/', lambda m: ' ' * 0 + re.sub(r'[^\n]', ' ', m.group(0)), src, flags=re.S)
    src = re.sub(r'//[^\n]*', '', src)
    return src


def find_function_body(src, signature_regex):
    """Return the text between the braces of the first function whose header matches."""
    m = re.search(signature_regex, src)
    if not m:
        raise TranslateError("function not found: %s" % signature_regex)
    i = src.index('{', m.end() - 1) if src[m.end() - 1] != '{' else m.end() - 1
    return match_braces(src, i)


def match_braces(src, i, open_c='{', close_c='}'):
    assert src[i] == open_c
    depth = 0
    j = i
    while j < len(src):
        if src[j] == open_c:
            depth += 1
        elif src[j] == close_c:
            depth -= 1
            if depth == 0:
                return src[i + 1:j]
        j += 1
    raise TranslateError("unbalanced braces")


def walk(ast):
    yield ast
    k = ast[0]
    if k in ('num', 'id'):
        return
    if k == 'call':
        yield from walk(ast[1])
        for a in ast[2]:
            yield from walk(a)
    elif k == 'idx':
        yield from walk(ast[1])
        yield from walk(ast[2])
    elif k == 'mem':
        yield from walk(ast[1])
    elif k == 'un':
        yield from walk(ast[2])
    elif k == 'bin':
        yield from walk(ast[2])
        yield from walk(ast[3])
    elif k == 'cond':
        yield from walk(ast[1])
        yield from walk(ast[2])
        yield from walk(ast[3])
    elif k == 'cast':
        yield from walk(ast[2])
