#!/usr/bin/env python3
"""T2: the OpenMP work-sharing skeletons of the residual and smoother kernels  ->  coq/gen/ParRegionsGen.v

For each region (the last "#pragma omp parallel" block of the named function) every "#pragma omp for [nowait]" loop
becomes a ParDefs.phase: the nowait bit straight from the pragma, the iteration values  for (int v = S; v < B; v += K)
as  range_step S B K, and the loop body (local int definitions, if / else chains, calls of the task functions) as a
Gallina function from the iteration value to the list of task calls.  Whether the solver scratch vectors are declared
inside the parallel block (= private to each thread) is recorded in the SolveCircle / SolveRadial tasks.
Anything else inside a region raises TranslateError (the check then reports the property as not shown)."""
import os
import re
import sys

sys.path.insert(0, os.path.dirname(os.path.abspath(__file__)))
from cexpr import parse_expr, strip_comments, match_braces, TranslateError

REGIONS = [
    ('residual_give', 'src/Residual/ResidualGive/residualGive.cpp', r'void\s+ResidualGive::computeResidual\s*\(', 'resgive'),
    ('residual_take', 'src/Residual/ResidualTake/residualTake.cpp', r'void\s+ResidualTake::computeResidual\s*\(', 'restake'),
    ('direct_give_assembly', 'src/DirectSolver/DirectSolverGiveCustomLU/buildSolverMatrix.cpp', r'SparseMatrixCSR<double>\s+DirectSolverGiveCustomLU::buildSolverMatrix\s*\(', 'asmgive'),
    ('direct_take_assembly', 'src/DirectSolver/DirectSolverTakeCustomLU/buildSolverMatrix.cpp', r'SparseMatrixCSR<double>\s+DirectSolverTakeCustomLU::buildSolverMatrix\s*\(', 'asmtake'),
    ('smoother_give_build', 'src/Smoother/SmootherGive/buildMatrix.cpp', r'void\s+SmootherGive::buildAscMatrices\s*\(', 'asmgive'),
    ('smoother_take_build', 'src/Smoother/SmootherTake/buildMatrix.cpp', r'void\s+SmootherTake::buildAscMatrices\s*\(', 'asmtake'),
    ('ext_smoother_give_build', 'src/ExtrapolatedSmoother/ExtrapolatedSmootherGive/buildAscMatrices.cpp',
     r'void\s+ExtrapolatedSmootherGive::buildAscMatrices\s*\(', 'asmgive'),
    ('ext_smoother_take_build', 'src/ExtrapolatedSmoother/ExtrapolatedSmootherTake/buildAscMatrices.cpp',
     r'void\s+ExtrapolatedSmootherTake::buildAscMatrices\s*\(', 'asmtake'),
    ('smoother_give', 'src/Smoother/SmootherGive/smootherSolver.cpp', r'void\s+SmootherGive::smoothingForLoop\s*\(', 'give'),
    ('smoother_take', 'src/Smoother/SmootherTake/smootherSolver.cpp', r'void\s+SmootherTake::smoothing\s*\(', 'take'),
    ('ext_smoother_give', 'src/ExtrapolatedSmoother/ExtrapolatedSmootherGive/smootherSolver.cpp',
     r'void\s+ExtrapolatedSmootherGive::extrapolatedSmoothingForLoop\s*\(', 'give'),
    ('ext_smoother_take', 'src/ExtrapolatedSmoother/ExtrapolatedSmootherTake/smootherSolver.cpp',
     r'void\s+ExtrapolatedSmootherTake::extrapolatedSmoothing\s*\(', 'take'),
]
GRID = {'numberSmootherCircles': '(d_nsc d)', 'ntheta': '(d_nt d)', 'nr': '(d_nr d)', 'lengthSmootherRadial': '(d_nr d - d_nsc d)'}


def coq(ast, env, want='Z'):
    k = ast[0]
    if k == 'num':
        if want != 'Z' or not re.fullmatch(r'\d+', ast[1]):
            raise TranslateError('literal %s' % ast[1])
        return ast[1]
    if k == 'id':
        if ast[1] not in env:
            raise TranslateError('unknown identifier %s' % ast[1])
        return env[ast[1]]
    if k == 'call' and ast[1][0] == 'mem' and ast[1][1] == ('id', 'grid_') and ast[1][2] in GRID and not ast[2]:
        return GRID[ast[1][2]]
    if k == 'un' and ast[1] == '-' and want == 'Z':
        return '(- %s)' % coq(ast[2], env)
    if k == 'bin':
        op, a, b = ast[1], ast[2], ast[3]
        if op in '+-*' and want == 'Z':
            return '(%s %s %s)' % (coq(a, env), op, coq(b, env))
        if op in ('/', '%') and want == 'Z':
            return '(%s %s %s)' % ({'/': 'Z.quot', '%': 'Z.rem'}[op], coq(a, env), coq(b, env))
        if op in ('<', '<=', '>', '>=', '==', '!=') and want == 'bool':
            A, B = coq(a, env), coq(b, env)
            return {'<': '(%s <? %s)', '<=': '(%s <=? %s)', '>': '(%s >? %s)', '>=': '(%s >=? %s)', '==': '(%s =? %s)',
                    '!=': '(negb (%s =? %s))'}[op] % (A, B)
        if op in ('&&', '||') and want == 'bool':
            return '(%s %s %s)' % (coq(a, env, 'bool'), op, coq(b, env, 'bool'))
    if k == 'cond':
        return '(if %s then %s else %s)' % (coq(ast[1], env, 'bool'), coq(ast[2], env, want), coq(ast[3], env, want))
    raise TranslateError('unsupported expression %r' % (ast[:2],))


class Body:
    """statement parser for loop bodies"""
    def __init__(self, text, kind, private):
        self.s, self.i, self.kind, self.private = text, 0, kind, private

    def ws(self):
        while self.i < len(self.s) and self.s[self.i].isspace():
            self.i += 1

    def block(self, env):
        """statements until the end of the text; returns a Gallina term of type list task"""
        self.ws()
        if self.i >= len(self.s):
            return '[]'
        rest = self.s[self.i:]
        m = re.match(r'(?:const\s+)?int\s+(\w+)\s*=\s*([^;]*);', rest)
        if m:
            self.i += m.end()
            e = coq(parse_expr(m.group(2)), env)
            env2 = dict(env); env2[m.group(1)] = m.group(1)
            return '(let %s := %s in %s)' % (m.group(1), e, self.block(env2))
        if rest.startswith('if'):
            return '(%s ++ %s)' % (self.ifstmt(env), self.block(env))
        m = re.match(r'(\w+)\s*\(', rest)
        if m:
            j = self.i + m.end() - 1
            args = match_braces(self.s, j, '(', ')')
            self.i = j + len(args) + 2
            self.ws()
            if self.i >= len(self.s) or self.s[self.i] != ';':
                raise TranslateError('expected ; after call %s' % m.group(1))
            self.i += 1
            return '(%s :: %s)' % (self.task(m.group(1), [a.strip() for a in args.split(',')], env), self.block(env))
        raise TranslateError('unsupported statement in a loop body: %r' % rest[:50])

    def ifstmt(self, env):
        assert self.s[self.i:].startswith('if')
        self.i += 2; self.ws()
        cond = match_braces(self.s, self.i, '(', ')')
        self.i += len(cond) + 2; self.ws()
        if self.s[self.i] != '{':
            raise TranslateError('if without braces')
        then = match_braces(self.s, self.i); self.i += len(then) + 2
        t = Body(then, self.kind, self.private).block(env)
        self.ws()
        e = '[]'
        if self.s[self.i:].startswith('else'):
            self.i += 4; self.ws()
            if self.s[self.i:].startswith('if'):
                e = self.ifstmt(env)
            else:
                els = match_braces(self.s, self.i); self.i += len(els) + 2
                e = Body(els, self.kind, self.private).block(env)
        return '(if %s then %s else %s)' % (coq(parse_expr(cond), env, 'bool'), t, e)

    def task(self, fn, args, env):
        idx = coq(parse_expr(args[0]), env)
        col = None
        if len(args) > 1 and args[1].startswith('SmootherColor::'):
            col = {'SmootherColor::Black': 'false', 'SmootherColor::White': 'true'}[args[1]]
        if self.kind in ('asmgive', 'asmtake'):
            c = {'buildSolverMatrixCircleSection': 'Circle', 'buildSolverMatrixRadialSection': 'Radial',
                 'buildAscCircleSection': 'Circle', 'buildAscRadialSection': 'Radial'}.get(fn)
            if c is None:
                raise TranslateError('unknown task function %s' % fn)
            return '(%s%s %s)' % ('AsmGive' if self.kind == 'asmgive' else 'AsmTake', c, idx)
        if self.kind in ('resgive', 'restake'):
            c = {'applyCircleSection': 'Circle', 'applyRadialSection': 'Radial'}.get(fn)
            if c is None:
                raise TranslateError('unknown task function %s' % fn)
            return '(%s%s %s)' % ('ResGive' if self.kind == 'resgive' else 'ResTake', c, idx)
        give = 'true' if self.kind == 'give' else 'false'
        if fn == 'applyAscOrthoCircleSection' and col:
            return '(AscCircle %s %s %s)' % (give, idx, col)
        if fn == 'applyAscOrthoRadialSection' and col:
            return '(AscRadial %s %s %s)' % (give, idx, col)
        if fn in ('solveCircleSection', 'solveRadialSection'):
            storages = [a for a in args[1:] if 'storage' in a]
            if not storages:
                raise TranslateError('%s without scratch arguments' % fn)
            priv = all(a in self.private for a in storages)
            return '(%s %s %s)' % ('SolveCircle' if fn == 'solveCircleSection' else 'SolveRadial', 'true' if priv else 'false', idx)
        raise TranslateError('unknown task function %s' % fn)


def translate_region(src, sig, kind):
    m = re.search(sig, src)
    if not m:
        raise TranslateError('function not found: %s' % sig)
    fbody = match_braces(src, src.index('{', m.end()))
    pars = [mm.start() for mm in re.finditer(r'#pragma\s+omp\s+parallel\b(?!\s+for)', fbody)]
    if not pars:
        raise TranslateError('no parallel region in %s' % sig)
    p = pars[-1]
    region = match_braces(fbody, fbody.index('{', p))
    # names defined before the region (loop bounds) and scratch vectors declared before it (shared!)
    env = {}
    pre = fbody[:p]
    for mm in re.finditer(r'const\s+int\s+(\w+)\s*=\s*([^;]*);', pre):
        try:
            env[mm.group(1)] = coq(parse_expr(mm.group(2)), env)
        except TranslateError:
            pass
    private = set()
    phases = []
    i = 0
    while True:
        while i < len(region) and region[i].isspace():
            i += 1
        if i >= len(region):
            break
        rest = region[i:]
        mm = re.match(r'Vector<double>\s+(\w+)\s*\([^;]*\)\s*;', rest)
        if mm:
            private.add(mm.group(1)); i += mm.end(); continue
        mm = re.match(r'const\s+int\s+(\w+)\s*=\s*([^;]*);', rest)
        if mm:
            env[mm.group(1)] = coq(parse_expr(mm.group(2)), env); i += mm.end(); continue
        mm = re.match(r'#pragma\s+omp\s+for\b([^\n]*)\n\s*for\s*\(\s*int\s+(\w+)\s*=\s*([^;]*);\s*\2\s*<\s*([^;]*);\s*\2\s*(\+\+|\+=\s*\d+)\s*\)\s*', rest)
        if mm:
            clauses = mm.group(1).strip()
            if clauses not in ('', 'nowait'):
                raise TranslateError('unsupported omp for clauses: %r' % clauses)
            var = mm.group(2)
            stride = '1' if mm.group(5) == '++' else mm.group(5)[2:].strip()
            j = i + mm.end()
            if region[j] != '{':
                raise TranslateError('loop without braces')
            body = match_braces(region, j)
            i = j + len(body) + 2
            envb = dict(env); envb[var] = 'v'
            term = Body(body, kind, private).block(envb)
            phases.append('  mkPhase %s (fun d => map (fun v => %s) (range_step %s %s %s))' %
                          ('true' if clauses == 'nowait' else 'false', term, coq(parse_expr(mm.group(3)), env),
                           coq(parse_expr(mm.group(4)), env), stride))
            continue
        raise TranslateError('unsupported construct in the parallel region: %r' % rest[:60])
    if not phases:
        raise TranslateError('no omp for loops found in %s' % sig)
    return phases


def translate(repo):
    out = ['(* GENERATED by translate/t2_regions.py -- do not edit. *)', 'From Coq Require Import List ZArith Bool.',
           'From GMGP Require Import ParDefs.', 'Import ListNotations.', 'Local Open Scope Z_scope.', '']
    for name, path, sig, kind in REGIONS:
        src = strip_comments(open(os.path.join(repo, path)).read())
        phases = translate_region(src, sig, kind)
        out.append('Definition gen_%s : list phase := [\n%s\n].\n' % (name, ';\n'.join(phases)))
    return '\n'.join(out)


if __name__ == '__main__':
    repo = sys.argv[1] if len(sys.argv) > 1 else '/repo'
    dst = os.path.join(os.path.dirname(os.path.abspath(__file__)), '../coq/gen/ParRegionsGen.v')
    try:
        text = translate(repo)
    except TranslateError as e:
        print('T2 TRANSLATE-ERROR: %s' % e)
        sys.exit(2)
    old = open(dst).read() if os.path.exists(dst) else None
    if old != text:
        open(dst, 'w').write(text)
    print('T2 ok: %s' % dst)
