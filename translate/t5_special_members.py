#!/usr/bin/env python3
"""T5: include/LinearAlgebra/*.h  ->  coq/gen/SpecialMembersGen.v

For each linear-algebra class and each of its four special member functions the translator
records, per data member, how the target obtains its value and what happens to the source:

  target:  TCopy            scalar / std::vector copied from other.m
           TMove            std::move(other.m)
           TDeep alloc len  fresh array of `alloc` elements, `len` elements copied from other.m
           TNone            not mentioned (constructor: default member initialiser; assignment: untouched)
  source:  SKeep | SNull (moved-from smart pointer / vector) | SReset "literal"

Size expressions are normalised strings (other.x -> x, whitespace removed).  Anything the
translator cannot classify raises an error: the check then reports C15 as not shown."""
import os
import re
import sys

sys.path.insert(0, os.path.dirname(os.path.abspath(__file__)))
from cexpr import strip_comments, match_braces, TranslateError

CLASSES = [
    ('vector.h', 'Vector'),
    ('coo_matrix.h', 'SparseMatrixCOO'),
    ('csr_matrix.h', 'SparseMatrixCSR'),
    ('sparseLUSolver.h', 'SparseLUSolver'),
    ('symmetricTridiagonalSolver.h', 'SymmetricTridiagonalSolver'),
    ('diagonalSolver.h', 'DiagonalSolver'),
]


def norm(e):
    e = re.sub(r'\s+', '', e)
    e = e.replace('other.', '').replace('this->', '')
    # a length clamped at zero is the same length for every object the class invariant admits
    e = re.sub(r'std::max\(([A-Za-z_0-9+\-]+),0\)', r'\1', e)
    return e


def members_of(src, cls):
    m = re.search(r'class\s+%s\s*\{' % cls, src)
    if not m:
        raise TranslateError("class %s not found" % cls)
    body = match_braces(src, m.end() - 1)
    i = body.rfind('private:')
    if i < 0:
        raise TranslateError("no private section in %s" % cls)
    priv = body[i + len('private:'):]
    mem = []
    for st in priv.split(';'):
        st = st.strip()
        if not st or '(' in st.split('=')[0]:
            continue  # member functions
        mm = re.fullmatch(r'(.*?)\s+([A-Za-z_][A-Za-z_0-9]*)\s*(?:=\s*(.*))?', st, re.S)
        if not mm:
            raise TranslateError("cannot parse member declaration %r in %s" % (st, cls))
        types = [t.strip() for t in mm.group(1).split(',')]
        names = [mm.group(2)]
        # "std::vector<T> L_values, U_values" style
        if ',' in st.split('=')[0]:
            first = st.split(',')[0]
            mm0 = re.fullmatch(r'(.*?)\s+([A-Za-z_][A-Za-z_0-9]*)', first.strip(), re.S)
            ty = mm0.group(1)
            names = [mm0.group(2)] + [x.strip() for x in st.split(',')[1:]]
            for nme in names:
                mem.append((nme, ty.strip(), None))
            continue
        mem.append((mm.group(2), mm.group(1).strip(), mm.group(3).strip() if mm.group(3) else None))
    return mem


def kind_of(ty):
    if 'unique_ptr' in ty:
        return 'KArr'
    if 'std::vector' in ty:
        return 'KVec'
    return 'KScalar'


def find_special(src, cls, which):
    T = r'%s(?:<T>)?' % cls
    pats = {
        'copy_ctor': r'%s<T>::%s\s*\(\s*const\s+%s\s*&\s*other\s*\)' % (cls, cls, T),
        'move_ctor': r'%s<T>::%s\s*\(\s*%s\s*&&\s*other\s*\)\s*noexcept' % (cls, cls, T),
        'copy_assign': r'%s<T>::operator=\s*\(\s*const\s+%s\s*&\s*other\s*\)' % (cls, T),
        'move_assign': r'%s<T>::operator=\s*\(\s*%s\s*&&\s*other\s*\)\s*noexcept' % (cls, T),
    }
    m = re.search(pats[which], src)
    if not m:
        raise TranslateError("%s of %s not found" % (which, cls))
    j = src.index('{', m.end())
    init = src[m.end():j]
    body = match_braces(src, j)
    return init, body


def split_top(s, sep=','):
    out, depth, cur = [], 0, ''
    for ch in s:
        if ch in '(<[{':
            depth += 1
        if ch in ')>]}':
            depth -= 1
        if ch == sep and depth == 0:
            out.append(cur)
            cur = ''
        else:
            cur += ch
    if cur.strip():
        out.append(cur)
    return out


def analyse(cls, members, init, body, is_ctor, is_move):
    names = [m[0] for m in members]
    kinds = {m[0]: kind_of(m[1]) for m in members}
    tgt = {n: None for n in names}
    alloc = {}
    srcs = {n: 'SKeep' for n in names}
    # --- initializer list
    init = init.strip()
    if init.startswith(':'):
        for item in split_top(init[1:]):
            item = item.strip()
            if not item:
                continue
            mm = re.fullmatch(r'([A-Za-z_][A-Za-z_0-9]*)\s*\((.*)\)', item, re.S)
            if not mm or mm.group(1) not in tgt:
                raise TranslateError("%s: unknown initialiser %r" % (cls, item))
            n, e = mm.group(1), mm.group(2).strip()
            classify_assign(cls, n, e, tgt, alloc, srcs, kinds)
    # --- body statements (flatten if-blocks: conditions only guard re-allocation)
    flat = re.sub(r'#pragma[^\n]*', '', body)
    flat = re.sub(r'if\s*\(\s*this\s*[!=]=\s*&other\s*\)\s*\{\s*(?:/\*.*?\*/)?\s*return\s*\*this\s*;\s*\}', '', flat, flags=re.S)
    # Vector move-assign wraps everything in if (this != &other) { ... }
    mm = re.fullmatch(r'\s*if\s*\(\s*this\s*!=\s*&other\s*\)\s*\{(.*)\}\s*return\s*\*this\s*;\s*', flat, re.S)
    if mm:
        flat = mm.group(1)
    # re-allocations (possibly under a size test): remember their size expressions first.  A block guarded by a size test may
    # contain NOTHING but re-allocations: a copy placed there would only happen when the sizes differ.
    for bm in re.finditer(r'if\s*\(([^{}]*!=\s*other\.[^{}]*)\)\s*\{([^{}]*)\}', flat):
        tested = set(vm.group(1) for vm in re.finditer(r'([A-Za-z_][A-Za-z_0-9]*)\s*!=\s*other\.\1', bm.group(1)))
        for st in bm.group(2).split(';'):
            st = re.sub(r'/\*.*?\*/', '', st, flags=re.S).strip()
            if not st or re.fullmatch(r'[A-Za-z_][A-Za-z_0-9]*\s*=\s*std::make_unique<[A-Za-z]+\[\]>\(.*\)', st, re.S):
                continue
            am = re.fullmatch(r'([A-Za-z_][A-Za-z_0-9]*)\s*=\s*other\.\1', st)
            if am and am.group(1) in tested:
                continue          # assigning a size that was just found to differ
            raise TranslateError("%s: statement %r is executed only when the sizes differ" % (cls, st[:70]))
    cond_vars = []
    for cm in re.finditer(r'if\s*\(([^{}]*)\)\s*\{', flat):
        for vm in re.finditer(r'([A-Za-z_][A-Za-z_0-9]*)\s*!=\s*other\.\1', cm.group(1)):
            cond_vars.append(vm.group(1))
    for am in re.finditer(r'([A-Za-z_][A-Za-z_0-9]*)\s*=\s*std::make_unique<[A-Za-z]+\[\]>\(([^;]*)\)\s*;', flat):
        if am.group(1) in tgt:
            alloc[am.group(1)] = norm(am.group(2))
    # element-wise copy loops:  for (...; i < LEN; ...) { a_[i] = other.a_[i]; }
    for lm in re.finditer(r'for\s*\(\s*int\s+i\s*=\s*0\s*;\s*i\s*<\s*([^;]+);\s*\+\+i\s*\)\s*\{\s*([A-Za-z_0-9]+)\s*\[i\]\s*=\s*other\.\2\s*\[i\]\s*;\s*\}', flat):
        n = lm.group(2)
        note_copy(cls, n, norm(lm.group(1)), tgt, alloc)
    flat = re.sub(r'for\s*\([^)]*\)\s*\{[^}]*\}', '', flat)
    flat = re.sub(r'if\s*\([^{]*\)\s*\{', '', flat).replace('}', '')
    for st in flat.split(';'):
        st = st.strip()
        if not st or st.startswith('return') or st.startswith('/*') or st.startswith('assert'):
            continue
        mm = re.fullmatch(r'std::copy\s*\(\s*other\.([A-Za-z_0-9]+)\.get\(\)\s*,\s*other\.\1\.get\(\)\s*\+\s*(.*?)\s*,\s*\1\.get\(\)\s*\)', st, re.S)
        if mm:
            note_copy(cls, mm.group(1), norm(mm.group(2)), tgt, alloc)
            continue
        mm = re.fullmatch(r'other\.([A-Za-z_0-9]+)\s*=\s*(.*)', st, re.S)
        if mm:
            if mm.group(1) not in srcs:
                raise TranslateError("%s: unknown member other.%s" % (cls, mm.group(1)))
            srcs[mm.group(1)] = 'SReset "%s"' % norm(mm.group(2))
            continue
        mm = re.fullmatch(r'([A-Za-z_][A-Za-z_0-9]*)\s*=\s*(.*)', st, re.S)
        if mm and mm.group(1) in tgt:
            classify_assign(cls, mm.group(1), mm.group(2).strip(), tgt, alloc, srcs, kinds)
            continue
        raise TranslateError("%s: unsupported statement %r" % (cls, st[:80]))
    rules = []
    for n in names:
        t = tgt[n]
        if t is None:
            t = 'TNone'
        elif t == 'alloc-only':
            t = 'TDeep "%s" ""' % alloc.get(n, '')
        rules.append((n, kinds[n], t, srcs[n]))
    return rules, cond_vars


def classify_assign(cls, n, e, tgt, alloc, srcs, kinds):
    e1 = norm(e)
    if re.fullmatch(r'std::move\(%s\)' % re.escape(n), e1):
        tgt[n] = 'TMove'
        if kinds[n] in ('KArr', 'KVec'):
            srcs[n] = 'SNull'
        return
    mm = re.fullmatch(r'std::make_unique<[A-Za-z]+\[\]>\((.*)\)', e1)
    if mm:
        alloc[n] = mm.group(1)
        if tgt[n] is None:
            tgt[n] = 'alloc-only'
        return
    if e1 == n:      # m(other.m)  /  m = other.m
        tgt[n] = 'TCopy'
        return
    if e1 == 'nullptr' and False:
        return
    raise TranslateError("%s: member %s obtains %r (not a transfer from other)" % (cls, n, e))


def note_copy(cls, n, length, tgt, alloc):
    if n not in tgt:
        raise TranslateError("%s: copy into unknown member %s" % (cls, n))
    tgt[n] = 'TDeep "%s" "%s"' % (alloc.get(n, 'same'), length)


def translate(repo):
    out = ['(* GENERATED by translate/t5_special_members.py from include/LinearAlgebra/*.h -- do not edit. *)',
           'From Coq Require Import String List.', 'From GMGP Require Import ObjectsDefs.',
           'Import ListNotations.', 'Local Open Scope string_scope.', '']
    for fn, cls in CLASSES:
        src = strip_comments(open(os.path.join(repo, 'include/LinearAlgebra', fn)).read())
        mem = members_of(src, cls)
        out.append('(* %s: members %s *)' % (cls, ', '.join(m[0] for m in mem)))
        for which, is_ctor, is_move in (('copy_ctor', True, False), ('copy_assign', False, False),
                                        ('move_ctor', True, True), ('move_assign', False, True)):
            init, body = find_special(src, cls, which)
            rules, cond_vars = analyse(cls, mem, init, body, is_ctor, is_move)
            if which == 'copy_assign':
                out.append('Definition gen_%s_copy_assign_realloc_vars : list string := [%s].' % (cls, '; '.join('"%s"' % v for v in cond_vars)))
            out.append('Definition gen_%s_%s : list rule := [' % (cls, which))
            out.append(';\n'.join('  mkRule "%s" %s (%s) (%s)' % r for r in rules))
            out.append('].')
        defaults = []
        for n, ty, d in mem:
            defaults.append('  ("%s", "%s")' % (n, norm(d) if d else ''))
        out.append('Definition gen_%s_default_inits : list (string * string) := [\n%s\n].\n' % (cls, ';\n'.join(defaults)))
    return '\n'.join(out) + '\n'


if __name__ == '__main__':
    repo = sys.argv[1] if len(sys.argv) > 1 else '/repo'
    dst = sys.argv[2] if len(sys.argv) > 2 else os.path.join(os.path.dirname(os.path.abspath(__file__)), '../coq/gen/SpecialMembersGen.v')
    try:
        text = translate(repo)
    except TranslateError as e:
        print("T5 TRANSLATE-ERROR: %s" % e)
        sys.exit(2)
    old = open(dst).read() if os.path.exists(dst) else None
    if old != text:
        open(dst, 'w').write(text)
    print("T5 ok: %s" % dst)
