#!/usr/bin/env python3
"""T6: the vector kernels of include/LinearAlgebra/vector_operations.h  ->  coq/gen/VecOpsGen.v

For every kernel (assign, add, subtract, linear_combination, multiply, dot_product, l1_norm, l2_norm_squared, infinity_norm)
the translator reads the single loop  for (std::size_t i = 0; i < n; ++i) { body }  with n = <vector>.size(), the pragma in
front of it (threshold of the `if` clause, reduction operator and variable) and the initial value of the accumulator, and
writes:   gen_<kernel>_elem  : the new value of the written element as a function of the old element values and the scalars
      or  gen_<kernel>_step  : accumulator -> element values -> accumulator,  gen_<kernel>_init,  gen_<kernel>_reduction
          gen_<kernel>_threshold : Z.
Body grammar:  V[i] (=|+=|-=|*=) expr;   |   T name = expr;   |   if (a > b) { acc = name; }   |   acc += expr;
expr: + - * over V[i], scalar parameters, locals, std::abs(e), 0.0.  Anything else raises TranslateError."""
import os
import re
import sys

sys.path.insert(0, os.path.dirname(os.path.abspath(__file__)))
from cexpr import strip_comments, TranslateError, parse_expr, match_braces

REPO = sys.argv[1] if len(sys.argv) > 1 else '/repo'
OUT = os.path.join(os.path.dirname(os.path.abspath(__file__)), '..', 'coq', 'gen', 'VecOpsGen.v')
KERNELS = ['assign', 'add', 'subtract', 'linear_combination', 'multiply', 'dot_product', 'l1_norm', 'l2_norm_squared', 'infinity_norm']


def conv(e, env):
    k = e[0]
    if k == 'num':
        if float(e[1].rstrip('fFlL')) == 0.0:
            return 's0'
        raise TranslateError('literal %s' % e[1])
    if k == 'id':
        if e[1] in env:
            return env[e[1]]
        raise TranslateError('unknown identifier %s' % e[1])
    if k == 'idx' and e[1][0] == 'id' and e[2] == ('id', 'i'):
        nm = e[1][1] + '_i'
        env.setdefault('@elems', [])
        if nm not in env['@elems']:
            env['@elems'].append(nm)
        return nm
    if k == 'un' and e[1] == '-':
        return '(- %s)' % conv(e[2], env)
    if k == 'bin' and e[1] in '+-*':
        return '(%s %s %s)' % (conv(e[2], env), e[1], conv(e[3], env))
    if k == 'call' and e[1] == ('id', 'std::abs') and len(e[2]) == 1:
        return '(sabs %s)' % conv(e[2][0], env)
    raise TranslateError('expression outside the grammar: %r' % (e,))


def kernel(src, name):
    # the first overload whose parameter list has no trailing "const int m"
    for m in re.finditer(r'template\s*<typename T>\s*(void|T)\s+' + name + r'\s*\(([^)]*)\)\s*\{', src):
        params = m.group(2)
        if re.search(r'const\s+int\s+m\b', params):
            continue
        body = match_braces(src, m.end() - 1)
        break
    else:
        raise TranslateError('kernel %s not found' % name)
    scalars = re.findall(r'const\s+T&\s+(\w+)', params)
    vectors = re.findall(r'Vector<T>&\s+(\w+)', params)
    pm = re.search(r'#pragma\s+omp\s+parallel\s+for([^\n]*)\n\s*for\s*\(\s*std::size_t\s+i\s*=\s*0;\s*i\s*<\s*n;\s*\+\+i\s*\)\s*', body)
    if not pm:
        raise TranslateError('%s: parallel loop not found' % name)
    clauses = pm.group(1)
    nm = re.search(r'std::size_t\s+n\s*=\s*(\w+)\.size\(\)\s*;', body[:pm.start()])
    if not nm or nm.group(1) not in vectors:
        raise TranslateError('%s: n is not the size of a vector argument' % name)
    th = re.search(r'\bif\s*\(\s*n\s*>\s*([\d\']+)\s*\)', clauses)
    if not th:
        raise TranslateError('%s: no threshold clause' % name)
    threshold = int(th.group(1).replace("'", ''))
    red = re.search(r'reduction\s*\(\s*(\+|max)\s*:\s*(\w+)\s*\)', clauses)
    loop = match_braces(body, body.index('{', pm.end() - 1) if body[pm.end() - 1] != '{' else pm.end() - 1)
    stmts = [' '.join(s.split()) for s in re.split(r';', loop) if s.strip()]
    env = {s: s for s in scalars}
    env['@elems'] = []
    if red:
        acc = red.group(2)
        init = re.search(r'\bT\s+' + acc + r'\s*=\s*([^;]+);', body[:pm.start()])
        if not init:
            raise TranslateError('%s: accumulator not initialised' % name)
        env[acc] = acc
        init_c = conv(parse_expr(init.group(1)), dict(env))
        term = None
        lets = []
        i = 0
        while i < len(stmts):
            s = stmts[i]
            m1 = re.match(r'^' + acc + r'\s*\+=\s*(.+)$', s)
            m2 = re.match(r'^T\s+(\w+)\s*=\s*(.+)$', s)
            m3 = re.match(r'^if\s*\(\s*(\w+)\s*>\s*' + acc + r'\s*\)\s*\{\s*' + acc + r'\s*=\s*(\w+)$', s)
            if m1 and term is None:
                term = '(%s + %s)' % (acc, conv(parse_expr(m1.group(1)), env))
            elif m2:
                lets.append((m2.group(1), conv(parse_expr(m2.group(2)), env)))
                env[m2.group(1)] = m2.group(1)
            elif m3 and m3.group(1) == m3.group(2) and m3.group(1) in env and term is None:
                term = '(if sltb %s %s then %s else %s)' % (acc, m3.group(1), m3.group(1), acc)
                if i + 1 < len(stmts) and stmts[i + 1] == '}':
                    i += 1
            elif s == '}':
                pass
            else:
                raise TranslateError('%s: statement outside the grammar: %r' % (name, s))
            i += 1
        if term is None:
            raise TranslateError('%s: no accumulation statement' % name)
        for n_, v in reversed(lets):
            term = 'let %s := %s in %s' % (n_, v, term)
        elems = env['@elems']
        return {'kind': 'red', 'name': name, 'threshold': threshold, 'op': red.group(1), 'init': init_c, 'elems': elems,
                'scalars': scalars, 'acc': acc, 'term': term}
    if len(stmts) != 1:
        raise TranslateError('%s: element-wise kernel with %d statements' % (name, len(stmts)))
    m = re.match(r'^(\w+)\[i\]\s*(=|\+=|-=|\*=)\s*(.+)$', stmts[0])
    if not m or m.group(1) not in vectors:
        raise TranslateError('%s: statement outside the grammar: %r' % (name, stmts[0]))
    tgt = m.group(1) + '_i'
    env['@elems'].append(tgt)
    rhs = conv(parse_expr(m.group(3)), env)
    term = {'=': rhs, '+=': '(%s + %s)' % (tgt, rhs), '-=': '(%s - %s)' % (tgt, rhs), '*=': '(%s * %s)' % (tgt, rhs)}[m.group(2)]
    return {'kind': 'elem', 'name': name, 'threshold': threshold, 'elems': env['@elems'], 'scalars': scalars, 'term': term, 'target': tgt}


def write_if_changed(path, text):
    """keep the time stamp when nothing changed, so that make does not rebuild the proofs"""
    try:
        if open(path).read() == text:
            return
    except OSError:
        pass
    with open(path, 'w') as f:
        f.write(text)


def main():
    try:
        src = strip_comments(open(os.path.join(REPO, 'include/LinearAlgebra/vector_operations.h')).read())
        ks = [kernel(src, k) for k in KERNELS]
    except (TranslateError, ValueError, IndexError) as ex:
        write_if_changed(OUT, '(* T6 could not translate the current source: %s *)\nT6_translation_failed.\n' % str(ex).replace('*)', '* )'))
        print('T6 FAILED:', ex)
        return 1
    out = ['(* GENERATED by translate/t6_vector_kernels.py from include/LinearAlgebra/vector_operations.h; do not edit. *)',
           'From Coq Require Import List ZArith Bool.', 'From GMGP Require Import Scalar.', '',
           'Inductive redop := RedPlus | RedMax.', '', 'Section VecOpsGen.', '  Context {S : Sc}.', '  Local Open Scope sc_scope.']
    for k in ks:
        args = ' '.join(k['scalars'] + ([k['acc']] if k['kind'] == 'red' else []) + k['elems'])
        if k['kind'] == 'elem':
            out.append('  (* %s: written element %s *)' % (k['name'], k['target']))
            out.append('  Definition gen_%s_elem (%s : S) : S := %s.' % (k['name'], args, k['term']))
        else:
            out.append('  Definition gen_%s_step (%s : S) : S := %s.' % (k['name'], args, k['term']))
            out.append('  Definition gen_%s_init : S := %s.' % (k['name'], k['init']))
    out.append('End VecOpsGen.')
    for k in ks:
        out.append('Definition gen_%s_threshold : Z := %d%%Z.' % (k['name'], k['threshold']))
        if k['kind'] == 'red':
            out.append('Definition gen_%s_reduction : redop := %s.' % (k['name'], 'RedPlus' if k['op'] == '+' else 'RedMax'))
    write_if_changed(OUT, '\n'.join(out) + '\n')
    print('T6 ok: %s (%d kernels)' % (OUT, len(ks)))
    return 0


if __name__ == '__main__':
    sys.exit(main())
