#!/bin/bash
# Offline setup after a fresh restore: regenerate the translated Coq files from /repo, build the
# whole Coq development (full .vo build), extract + compile the OCaml model driver, and build
# /repo's working tree (hooks on) together with all harness programs.
set -u
cd "$(dirname "$0")"
rc=0
for t in translate/t*.py; do python3 "$t" /repo || rc=1; done
( cd coq && coq_makefile -f _CoqProject -o Makefile >/dev/null 2>&1 && timeout 3000 make -k -j"$(nproc)" 2>&1 | grep -v "^Warning\|^Closed under" | tail -40 ) || rc=1
python3 - <<'PY' || rc=1
import sys
sys.path.insert(0, 'lib')
import common
ok, msg = common.build_model_driver()
print('model driver:', ok, msg[-500:])
okh, msgh = common.build_harness([])
print('harness:', okh, msgh[-500:])
sys.exit(0 if ok and okh else 1)
PY
exit $rc
